"""C19  Trees contain every taxon once and keep distances through Newick.

Monitor: every tree returned by upgma()/neighbor_joining() and every tree built
through the public TreeNode/Tree constructors is read back through the public
properties (children / parent / distance / index) into a plain-Python node model;
all laws are then recomputed on that model in float64: leaf multiset, UPGMA
heights from the *input matrix* (average linkage, independent of tie breaking),
NJ path lengths of additive matrices, Newick write/parse (own recursive-descent
parser for the writer, biotite's parser for the round trip), copy, as_binary,
and distance/LCA queries against explicit path sums over parent pointers.
ASan/UBSan + the process-exit monitor watch upgma.c / nj.c / tree.c.
"""

import re

import numpy as np

ID = "C19"
FLAVOUR = "san"
LEVEL = "exploration"
RULE = (
    "seeded generator.  Matrix strata: n in 2..40 (NJ 4..40; half of the cases n<=8), zero diagonal, kinds "
    "metric (Euclidean point sets, optionally rounded to integers), ultrametric (random dendrogram heights, "
    "increments 0 with p=0.2), additive (random unrooted tree with arity 2-4, branch lengths 0 with p=0.2), "
    "integer-valued with few distinct values (many ties), arbitrary symmetric, constant; scale 10^U(-3,4) "
    "(4% 1e-30 / 1e30); presented as float64/float32/int64/int32, C / Fortran / strided view.  Invalid "
    "matrices: one asymmetric entry, negative, NaN, +inf, -inf, >= float32 max, non-square, 1-D, 3-D, n<4 for NJ.  "
    "Tree strata: random rooted trees with 1..40 leaves, arity 1-5 (unary chains incl. above the root), branch "
    "lengths from {0, U(0,1), small integers as int, negative, 1e-30/1e30 scale}, leaf indices a random "
    "permutation, labels of 1-8 characters that unquoted Newick labels allow, built bottom-up through "
    "TreeNode(children, distances)/TreeNode(index=)/Tree(root) with list/tuple/ndarray containers.  "
    "A case is non-trivial when n >= 3 and the matrix has at least two distinct off-diagonal values "
    "(matrix strata), the tree has a node of arity != 2 or a zero/negative branch (tree stratum), or the "
    "expected error was raised (error strata); distinct = distinct digest of the logged input."
)
STRATA = {
    "upgma": (5000, 130000),
    "nj": (5000, 130000),
    "random_tree": (4500, 110000),
    "invalid_matrix": (1000, 20000),
    "construct_errors": (500, 10000),
}
# functions that must leave their arguments untouched (vf.core.PurityMonitor; '!' = the object itself is watched too)
PURE = [
    "biotite.sequence.phylo.upgma:upgma",
    "biotite.sequence.phylo.nj:neighbor_joining",
]
REQUIRED_ORACLES = [
    "leaves_are_range_n", "upgma_ultrametric", "upgma_node_height_avg_linkage",
    "upgma_recovers_ultrametric_matrix", "nj_additive_path_lengths", "invalid_matrix_rejected",
    "newick_writer_vs_own_parser", "newick_roundtrip", "newick_labels_roundtrip",
    "newick_nodist_topology", "newick_whitespace", "copy_preserves", "as_binary_preserves",
    "path_queries", "construct_matches_model", "construction_error_raised", "clustering_completes",
]
ASSUMPTIONS = [
    "upgma.pyx, nj.pyx and tree.pyx are Cython: reach is counted at the driver call sites (ctx.op), not with sys.monitoring",
    "topology is compared modulo child order (nested multisets); Newick/copy keep unary nodes, as_binary is judged by "
    "clade compatibility (every original clade survives, every new clade is a union of sibling clades) plus all leaf-leaf distances",
    "tolerance 64*eps32*scale*depth; scale = largest matrix entry (clustering oracles) or largest root-to-leaf sum of |branch| "
    "(query/round-trip oracles), depth = longest root-to-leaf edge count of the tree under test; references in float64",
    "additive/ultrametric generators draw branch lengths from {0} u [0.05,1]*scale (no tiny-but-non-zero internal branches), "
    "so that the NJ/UPGMA pair selection is never within float32 rounding of a different topology",
    "matrices have a zero diagonal (a distance matrix); NJ sums the diagonal into the divergences",
    "labels are non-empty, unique, free of whitespace and of ( ) [ ] ' , : ;",
    "branch lengths are finite; NaN/inf branch lengths and leaf indices shared by two leaves are not generated "
    "(Tree() accepts duplicate indices and leaves a None in .leaves: counted as an observation, not judged)",
    "failed TreeNode constructions may leave a parent pointer on children listed before the offending one: counted as observation",
    "== / hash are judged only for: reflexive, copy equal with equal hash, a tree with one changed leaf branch unequal",
]
MIN_CASES_PER_WORKER = 40
MANIFEST = {
    "technique": "result monitor: every tree returned by upgma/neighbor_joining and every tree built through TreeNode/Tree is "
                 "read back through the public properties into a node model; tree laws recomputed in float64 (average linkage from "
                 "the input matrix, additive path lengths, own Newick parser, explicit parent-pointer path sums); ASan/UBSan build "
                 "of upgma.c, nj.c, tree.c; process-exit monitor",
    "level_text": "Runtime monitoring: thousands of generated distance matrices (metric, ultrametric, additive, tie-rich integer, "
                  "arbitrary; n up to 40; scales 1e-3..1e4) and random rooted trees (arity 1-5) are run through the real "
                  "upgma/neighbor_joining/Tree/TreeNode/as_binary code (ASan+UBSan build of the generated C); every result is "
                  "judged against float64 recomputation with a format-derived tolerance; documented errors must be raised for "
                  "invalid matrices and constructions.  Held-on-what-was-observed, not a proof.",
    "level_note": "Trusts the driver's node model and reference formulas (audited in selftest against a naive float64 UPGMA, brute-force "
                  "path sums and hand-made as_binary cases), numpy, and that the generated C corresponds to the .pyx (no Cython here).  "
                  "Child order, tie breaking and exact branch placement on unary chains are not judged.  Trigger classes of open "
                  "known findings are quarantined into probes.",
    "design_ref": "DESIGN.md section 6, C19",
}

EPS32 = float(np.finfo(np.float32).eps)
F32MAX = float(np.finfo(np.float32).max)

phylo = None
Tree = TreeNode = TreeError = as_binary = InvalidFileError = None


def setup(ctx):
    global phylo, Tree, TreeNode, TreeError, as_binary, InvalidFileError
    import biotite.sequence.phylo as phylo_
    from biotite.file import InvalidFileError as IFE
    phylo = phylo_
    Tree, TreeNode, TreeError, as_binary = phylo.Tree, phylo.TreeNode, phylo.TreeError, phylo.as_binary
    InvalidFileError = IFE


# =====================================================================
# node model (plain Python, float64)
# =====================================================================
class MNode:
    """Model node.  Attribute names mirror TreeNode so that the reference path
    walk works on both.  `distance` is the float64 value of the float32 the
    library stores."""
    __slots__ = ("children", "distance", "index", "parent", "ref")

    def __init__(self, children=None, dists=None, index=None):
        self.parent = None
        self.distance = None
        self.index = index
        self.ref = None
        self.children = None
        if children is not None:
            self.children = list(children)
            for c, d in zip(self.children, dists):
                c.parent = self
                c.distance = float(np.float32(d))


def m_nodes(m):
    out, stack = [], [m]
    while stack:
        x = stack.pop()
        out.append(x)
        if x.children is not None:
            stack.extend(reversed(x.children))
    return out


def m_leaves(m):
    return [x for x in m_nodes(m) if x.children is None]


def m_depth_mass(m):
    """(longest root-to-leaf edge count, largest root-to-leaf sum of |branch|)."""
    depth, mass = 0, 0.0
    stack = [(m, 0, 0.0)]
    while stack:
        x, d, s = stack.pop()
        if x.children is None:
            depth, mass = max(depth, d), max(mass, s)
        else:
            for c in x.children:
                stack.append((c, d + 1, s + abs(c.distance)))
    return depth, mass


def m_below(m):
    """Post-order: dict id(node) -> list of (leaf_index, distance node->leaf, edges)."""
    below = {}
    order = m_nodes(m)
    for x in reversed(order):
        if x.children is None:
            below[id(x)] = [(x.index, 0.0, 0)]
        else:
            acc = []
            for c in x.children:
                acc.extend((i, d + c.distance, e + 1) for (i, d, e) in below[id(c)])
            below[id(x)] = acc
    return below


def m_leaf_dists(m, n, below=None):
    """All leaf-leaf path lengths (float64) and edge counts; leaf indices must be range(n)."""
    D = np.zeros((n, n))
    T = np.zeros((n, n), dtype=np.int64)
    below = below or m_below(m)
    for x in m_nodes(m):
        if x.children is None or len(x.children) < 2:
            continue
        parts = [[(i, d + c.distance, e + 1) for (i, d, e) in below[id(c)]] for c in x.children]
        for a in range(len(parts)):
            for b in range(a + 1, len(parts)):
                for (i, di, ei) in parts[a]:
                    for (j, dj, ej) in parts[b]:
                        D[i, j] = D[j, i] = di + dj
                        T[i, j] = T[j, i] = ei + ej
    return D, T


def m_canon(m, with_dist):
    """Child-order independent canonical form."""
    memo = {}
    for x in reversed(m_nodes(m)):
        d = (x.distance if (with_dist and x.parent is not None) else 0.0)
        if x.children is None:
            memo[id(x)] = ("L", x.index, d)
        else:
            memo[id(x)] = ("I", d, tuple(sorted(memo[id(c)] for c in x.children)))
    return memo[id(m)]


def m_clades(m, below=None):
    below = below or m_below(m)
    return {id(x): frozenset(i for (i, _, _) in below[id(x)]) for x in m_nodes(m)}


def m_copy(m):
    if m.children is None:
        return MNode(index=m.index)
    return MNode([m_copy(c) for c in m.children], [c.distance for c in m.children])


def m_log(m):
    """JSON-able nested description: leaf -> index, inner -> [[child, dist], ...]."""
    if m.children is None:
        return m.index
    return [[m_log(c), c.distance] for c in m.children]


def tol_of(scale, depth):
    return 64.0 * EPS32 * scale * max(depth, 1)


# ---------------------------------------------------------------------
# reference walk over parent pointers (works on TreeNode and MNode)
# ---------------------------------------------------------------------
def ref_query(a, b):
    """(lca, path length, edge count) by explicit parent-pointer walks; lca None if unrelated."""
    up, cur = {}, a
    da, ea = 0.0, 0
    while cur is not None:
        up[id(cur)] = (da, ea)
        p = cur.parent
        if p is not None:
            da += float(cur.distance)
            ea += 1
        cur = p
    cur, db, eb = b, 0.0, 0
    while cur is not None:
        if id(cur) in up:
            da, ea = up[id(cur)]
            return cur, da + db, ea + eb
        p = cur.parent
        if p is not None:
            db += float(cur.distance)
            eb += 1
        cur = p
    return None, None, None


# ---------------------------------------------------------------------
# pure reference judgements on the model (audited in selftest)
# ---------------------------------------------------------------------
def upgma_problems(m, D, tol):
    """Ultrametricity and average-linkage heights of model tree `m` for input matrix D."""
    probs = []
    below = m_below(m)
    for x in m_nodes(m):
        if x.children is None:
            continue
        for c in x.children:
            if c.distance < -tol:
                probs.append(("upgma_ultrametric", "negative branch %.9g below a merge" % c.distance))
        downs = [d for (_, d, _) in below[id(x)]]
        if max(downs) - min(downs) > tol:
            probs.append(("upgma_ultrametric", "leaves below a node at different depths: spread %.9g > tol %.3g"
                          % (max(downs) - min(downs), tol)))
        if len(x.children) != 2:
            probs.append(("upgma_node_height_avg_linkage", "merge node with %d children" % len(x.children)))
            continue
        A = [i for (i, _, _) in below[id(x.children[0])]]
        B = [i for (i, _, _) in below[id(x.children[1])]]
        expected = 0.5 * float(D[np.ix_(A, B)].mean())
        got = float(np.mean(downs))
        if abs(got - expected) > tol:
            probs.append(("upgma_node_height_avg_linkage",
                          "height %.9g of the merge of %s and %s, half average linkage %.9g (diff %.3g, tol %.3g)"
                          % (got, sorted(A)[:8], sorted(B)[:8], expected, abs(got - expected), tol)))
    return probs


def pathlen_problems(m, D, tol, oracle):
    n = D.shape[0]
    TD, _ = m_leaf_dists(m, n)
    err = np.abs(TD - D)
    np.fill_diagonal(err, 0.0)
    if err.size and float(err.max()) > tol:
        i, j = np.unravel_index(int(err.argmax()), err.shape)
        return [(oracle, "path length %d-%d is %.9g, matrix %.9g (diff %.3g, tol %.3g)"
                 % (i, j, TD[i, j], D[i, j], err[i, j], tol))], float(err.max())
    return [], float(err.max()) if err.size else 0.0


def binary_problems(mo, mb, tol):
    """Is model tree mb an acceptable binary form of mo?"""
    probs = []
    lo = sorted(x.index for x in m_leaves(mo))
    lb = sorted(x.index for x in m_leaves(mb))
    if lo != lb:
        return ["leaf indices %s became %s" % (lo[:10], lb[:10])]
    n_leaves = len(lo)
    for x in m_nodes(mb):
        if x.children is not None and len(x.children) != 2:
            probs.append("node with %d children in the binary form" % len(x.children))
    bo, bb = m_below(mo), m_below(mb)
    co, cb = m_clades(mo, bo), m_clades(mb, bb)
    so, sb = set(co.values()), set(cb.values())
    for c in so:
        if len(c) >= 2 and c not in sb:
            probs.append("clade %s lost" % sorted(c)[:10])
    child_clades = {}
    for x in m_nodes(mo):
        if x.children is not None:
            child_clades.setdefault(co[id(x)], [])
            # a unary chain shares its clade: keep the finest partition (deepest node)
            part = [co[id(c)] for c in x.children]
            if len(part) > len(child_clades[co[id(x)]]):
                child_clades[co[id(x)]] = part
    for c in sb:
        if c in so:
            continue
        sup = [o for o in so if c < o]
        if not sup:
            probs.append("new clade %s not inside any original clade" % sorted(c)[:10])
            continue
        host = min(sup, key=len)
        for part in child_clades.get(host, []):
            if not (part <= c or not (part & c)):
                probs.append("new clade %s cuts through child clade %s" % (sorted(c)[:10], sorted(part)[:10]))
    if sorted(lo) == list(range(n_leaves)) and n_leaves >= 2:
        Do, _ = m_leaf_dists(mo, n_leaves, bo)
        Db, _ = m_leaf_dists(mb, n_leaves, bb)
        e = np.abs(Do - Db)
        if float(e.max()) > tol:
            i, j = np.unravel_index(int(e.argmax()), e.shape)
            probs.append("leaf distance %d-%d changed from %.9g to %.9g (tol %.3g)" % (i, j, Do[i, j], Db[i, j], tol))
    return probs


def same_tree_problems(ma, mb, n, tol, with_dist=True):
    """Topology (modulo child order) and all leaf-leaf distances."""
    probs = []
    if m_canon(ma, False) != m_canon(mb, False):
        probs.append("topology differs")
        return probs
    if n >= 2:
        Da, Ta = m_leaf_dists(ma, n)
        Db, Tb = m_leaf_dists(mb, n)
        if not np.array_equal(Ta, Tb):
            probs.append("topological leaf distances differ")
        if with_dist:
            e = np.abs(Da - Db)
            if float(e.max()) > tol:
                i, j = np.unravel_index(int(e.argmax()), e.shape)
                probs.append("leaf distance %d-%d is %.9g, expected %.9g (tol %.3g)" % (i, j, Db[i, j], Da[i, j], tol))
        else:
            if float(np.abs(Db).max()) != 0.0:
                probs.append("distances present although none were written")
    return probs


# ---------------------------------------------------------------------
# own Newick reader (for the writer oracle)
# ---------------------------------------------------------------------
_STOP = ",:;()"


def parse_newick(s, labels=None):
    if not s.endswith(";"):
        raise ValueError("no terminal semicolon")
    s = s[:-1]
    pos = [0]

    def read_until(stops):
        a = pos[0]
        while pos[0] < len(s) and s[pos[0]] not in stops:
            pos[0] += 1
        return s[a:pos[0]]

    def tail():
        label = read_until(_STOP)
        dist = None
        if pos[0] < len(s) and s[pos[0]] == ":":
            pos[0] += 1
            dist = float(read_until(_STOP))
        return label, dist

    def node():
        if pos[0] < len(s) and s[pos[0]] == "(":
            pos[0] += 1
            kids = []
            while True:
                kids.append(node())
                if pos[0] >= len(s):
                    raise ValueError("unbalanced")
                ch = s[pos[0]]
                pos[0] += 1
                if ch == ",":
                    continue
                if ch == ")":
                    break
                raise ValueError("unexpected %r" % ch)
            label, dist = tail()
            return MNode([k for k, _ in kids], [0.0 if d is None else d for _, d in kids]), dist
        label, dist = tail()
        idx = labels.index(label) if labels is not None else int(label)
        return MNode(index=idx), dist

    root, dist = node()
    if pos[0] != len(s):
        raise ValueError("trailing text %r" % s[pos[0]:])
    return root, dist


_WS = [" ", "  ", "\t", "\n", "\r\n", " \n\t "]


def add_whitespace(rng, s):
    out = []
    for t in re.split(r"([(),:;])", s):
        if t == "":
            continue
        if rng.random() < 0.4:
            out.append(_WS[int(rng.integers(len(_WS)))])
        out.append(t)
    if rng.random() < 0.5:
        out.append(_WS[int(rng.integers(len(_WS)))])
    return "".join(out)


_LABEL_CHARS = list("abcdefghijklmnopqrstuvwxyzABCDEFGHIJKLMNOPQRSTUVWXYZ0123456789_.-+|/#*%$&!?<>=^~@{}\\\"'") + ["é", "中", "β"]


def pick_form(rng, base):
    base = base.strip("'") or "x"
    return [base + "'", "'" + base, base + "''", "'" + base + "'"][int(rng.integers(4))]


def gen_labels(rng, n):
    seen, out = set(), []
    while len(out) < n:
        k = int(rng.integers(1, 9))
        lab = "".join(_LABEL_CHARS[int(i)] for i in rng.integers(0, len(_LABEL_CHARS), size=k))
        if rng.random() < 0.15:
            lab = str(int(rng.integers(0, 100)))            # numeric-looking labels
        elif rng.random() < 0.1:
            # labels that begin or end with an apostrophe (3', 5', A'), next to the same label without it
            base = out[int(rng.integers(len(out)))] if out and rng.random() < 0.5 else lab
            lab = pick_form(rng, base)
        if lab not in seen:
            seen.add(lab)
            out.append(lab)
    return out


# =====================================================================
# reading the real tree back
# =====================================================================
def extract(ctx, bnode, what):
    """Model of the real (sub)tree under `bnode`, read through the public properties."""
    root = MNode(index=None)
    root.ref = bnode
    seen = {id(bnode)}
    stack = [(bnode, root)]
    count = 0
    while stack:
        b, m = stack.pop()
        count += 1
        ch = b.children
        idx = b.index
        if ch is None:
            if idx is None or b.is_leaf() is not True:
                ctx.fail("tree_structure", "%s: node without children and without index" % what)
            m.index = int(idx)
            continue
        if idx is not None or b.is_leaf() is not False:
            ctx.fail("tree_structure", "%s: inner node reports index %r" % (what, idx))
        if not isinstance(ch, tuple) or len(ch) == 0:
            ctx.fail("tree_structure", "%s: children is %r" % (what, type(ch).__name__))
        m.children = []
        for c in ch:
            if id(c) in seen:
                ctx.fail("tree_structure", "%s: a node is reachable twice" % what)
            seen.add(id(c))
            if c.parent is not b:
                ctx.fail("tree_structure", "%s: child.parent is not the node listing it" % what)
            d = c.distance
            if d is None:
                ctx.fail("tree_structure", "%s: child without distance" % what)
            mc = MNode(index=None)
            mc.ref, mc.parent, mc.distance = c, m, float(d)
            m.children.append(mc)
            stack.append((c, mc))
        if count > 100000:
            ctx.fail("tree_structure", "%s: more than 100000 nodes" % what)
    return root


def check_leaves(ctx, tree, m, n, what):
    ctx.oracle("leaves_are_range_n")
    if not isinstance(tree, Tree):
        ctx.fail("leaves_are_range_n", "%s returned %s" % (what, type(tree).__name__))
    ml = m_leaves(m)
    idx = sorted(x.index for x in ml)
    if idx != list(range(n)):
        ctx.fail("leaves_are_range_n", "%s: leaf indices %s for n=%d" % (what, idx[:60], n))
    if len(tree) != n:
        ctx.fail("leaves_are_range_n", "%s: len(tree) = %d for n=%d" % (what, len(tree), n))
    lv = tree.leaves
    by_index = {x.index: x.ref for x in ml}
    if len(lv) != n or any(lv[i] is not by_index[i] for i in range(n)):
        ctx.fail("leaves_are_range_n", "%s: tree.leaves[i] is not the leaf with index i" % what)
    gi = tree.root.get_indices()
    if sorted(int(i) for i in gi) != list(range(n)) or tree.root.get_leaf_count() != n:
        ctx.fail("leaves_are_range_n", "%s: get_indices()/get_leaf_count() = %s/%s" % (what, gi.tolist()[:60], tree.root.get_leaf_count()))
    got = tree.root.get_leaves()
    if len(got) != n or {id(x) for x in got} != {id(x.ref) for x in ml}:
        ctx.fail("leaves_are_range_n", "%s: get_leaves() is not the set of leaves reachable over children" % what)
    # the lists handed out are the caller's: changing them must not change the tree
    if n >= 2:
        ctx.oracle("returned_lists_are_copies")
        lv.reverse()
        lv.pop()
        got.clear()
        lv2 = tree.leaves
        if len(tree) != n or len(lv2) != n or any(lv2[i] is not by_index[i] for i in range(n)) \
                or tree.root.get_leaf_count() != n or len(tree.root.get_leaves()) != n:
            ctx.fail("returned_lists_are_copies", "%s: editing the list returned by tree.leaves / get_leaves() changed the tree" % what)


# =====================================================================
# laws evaluated on every tree
# =====================================================================
def law_queries(ctx, rng, tree, m, n, tol, npairs):
    nodes = m_nodes(m)
    ctx.oracle("path_queries")
    for _ in range(npairs):
        a = nodes[int(rng.integers(len(nodes)))]
        b = nodes[int(rng.integers(len(nodes)))] if rng.random() < 0.9 else a
        lca, dist, edges = ref_query(a.ref, b.ref)
        ctx.op("lowest_common_ancestor")
        got = a.ref.lowest_common_ancestor(b.ref)
        if got is not lca:
            ctx.fail("path_queries", "lowest_common_ancestor is not the first shared node on the two parent chains")
        ctx.op("distance_to")
        d = a.ref.distance_to(b.ref)
        if not abs(d - dist) <= tol:
            ctx.fail("path_queries", "distance_to = %.9g, explicit path sum %.9g (tol %.3g)" % (d, dist, tol),
                     a=m_log(a) if a.children is None else "inner", b=m_log(b) if b.children is None else "inner")
        t = a.ref.distance_to(b.ref, True) if rng.random() < 0.5 else a.ref.distance_to(b.ref, topological=True)
        if t != edges:
            ctx.fail("path_queries", "topological distance_to = %r, explicit edge count %d" % (t, edges))
        if rng.random() < 0.3:
            d2 = b.ref.distance_to(a.ref)
            if not abs(d2 - dist) <= tol:
                ctx.fail("path_queries", "distance_to is not symmetric: %.9g vs %.9g" % (d, d2))
    if n >= 2:
        lv = tree.leaves
        for _ in range(npairs):
            i, j = int(rng.integers(n)), int(rng.integers(n))
            lca, dist, edges = ref_query(lv[i], lv[j])
            ctx.op("get_distance")
            d = tree.get_distance(i, j)
            if not abs(d - dist) <= tol:
                ctx.fail("path_queries", "get_distance(%d,%d) = %.9g, explicit path sum %.9g (tol %.3g)" % (i, j, d, dist, tol))
            t = tree.get_distance(i, j, True) if rng.random() < 0.5 else tree.get_distance(i, j, topological=True)
            if t != edges:
                ctx.fail("path_queries", "get_distance(%d,%d,topological) = %r, edge count %d" % (i, j, t, edges))


def law_newick(ctx, rng, tree, m, n, tol):
    # --- writer against the driver's own reader
    ctx.op("to_newick")
    s = tree.to_newick()
    if str(tree) != s:
        ctx.fail("newick_writer_vs_own_parser", "str(tree) differs from to_newick()")
    ctx.oracle("newick_writer_vs_own_parser")
    try:
        own, _ = parse_newick(s)
    except (ValueError, IndexError) as e:
        ctx.fail("newick_writer_vs_own_parser", "writer output is not Newick: %s" % e, newick=s[:500])
    p = same_tree_problems(m, own, n, tol)
    if p:
        ctx.fail("newick_writer_vs_own_parser", "; ".join(p), newick=s[:500])
    # --- round trip through the real parser
    ctx.op("from_newick")
    ctx.oracle("newick_roundtrip")
    t2 = Tree.from_newick(s if rng.random() < 0.7 else s[:-1])      # terminal semicolon optional (documented)
    m2 = extract(ctx, t2.root, "from_newick")
    p = same_tree_problems(m, m2, n, tol)
    if p:
        ctx.fail("newick_roundtrip", "; ".join(p), newick=s[:500])
    if m_canon(m, True) != m_canon(m2, True):
        ctx.note("newick_roundtrip_branch_lengths_not_bit_identical")
    # --- labels
    labels = gen_labels(rng, n)
    ctx.log("labels", labels)
    ctx.op("to_newick_labels")
    sl = tree.to_newick(labels=labels if rng.random() < 0.7 else tuple(labels))
    ctx.oracle("newick_labels_roundtrip")
    try:
        own, _ = parse_newick(sl, labels)
    except (ValueError, IndexError) as e:
        ctx.fail("newick_labels_roundtrip", "labelled writer output unreadable: %s" % e, newick=sl[:500])
    p = same_tree_problems(m, own, n, tol)
    if p:
        ctx.fail("newick_labels_roundtrip", "writer: " + "; ".join(p), newick=sl[:500])
    ctx.op("from_newick_labels")
    t3 = Tree.from_newick(sl, labels=list(labels))
    p = same_tree_problems(m, extract(ctx, t3.root, "from_newick(labels)"), n, tol)
    if p:
        ctx.fail("newick_labels_roundtrip", "; ".join(p), newick=sl[:500])
    # --- without distances
    with_labels = rng.random() < 0.5
    ctx.op("to_newick_nodist")
    sn = tree.to_newick(labels=labels, include_distance=False) if with_labels else tree.to_newick(include_distance=False)
    ctx.oracle("newick_nodist_topology")
    if ":" in sn:
        ctx.fail("newick_nodist_topology", "include_distance=False still writes ':'", newick=sn[:500])
    t4 = Tree.from_newick(sn, labels=list(labels)) if with_labels else Tree.from_newick(sn)
    p = same_tree_problems(m, extract(ctx, t4.root, "from_newick(no distances)"), n, tol, with_dist=False)
    if p:
        ctx.fail("newick_nodist_topology", "; ".join(p), newick=sn[:500])
    # --- whitespace between tokens
    which = int(rng.integers(3))
    base = (s, sl, sn)[which]
    sw = add_whitespace(rng, base)
    ctx.log("newick_ws", sw if len(sw) < 600 else sw[:600] + "...")
    ctx.op("from_newick_whitespace")
    ctx.oracle("newick_whitespace")
    lab = None if which == 0 or (which == 2 and not with_labels) else list(labels)
    t5 = Tree.from_newick(sw, labels=lab) if lab is not None else Tree.from_newick(sw)
    p = same_tree_problems(m, extract(ctx, t5.root, "from_newick(whitespace)"), n, tol, with_dist=(which != 2))
    if p:
        ctx.fail("newick_whitespace", "; ".join(p), newick=sw[:500])
    # --- a subtree through TreeNode.to_newick/from_newick
    inner = [x for x in m_nodes(m) if x.children is not None and x.parent is not None]
    if inner and rng.random() < 0.5:
        x = inner[int(rng.integers(len(inner)))]
        ctx.op("TreeNode.to_newick")
        ss = x.ref.to_newick()
        node, dist = TreeNode.from_newick(ss)
        ctx.op("TreeNode.from_newick")
        mx = extract(ctx, x.ref, "subtree")
        my = extract(ctx, node, "TreeNode.from_newick")
        if m_canon(mx, False) != m_canon(my, False):
            ctx.fail("newick_roundtrip", "subtree topology changed through TreeNode.to_newick/from_newick", newick=ss[:500])
        if not abs(float(dist) - x.distance) <= tol:
            ctx.fail("newick_roundtrip", "subtree distance to parent %.9g read back as %.9g" % (x.distance, dist))
        lx, ly = m_leaves(mx), m_leaves(my)
        if len(lx) >= 2:
            by = {l.index: l for l in ly}
            a, b = lx[0], lx[-1]
            _, d1, _ = ref_query(a, b)
            _, d2, _ = ref_query(by[a.index], by[b.index])
            if not abs(d1 - d2) <= tol:
                ctx.fail("newick_roundtrip", "subtree leaf distance %.9g read back as %.9g" % (d1, d2))


def law_copy(ctx, rng, tree, m, n, tol):
    ctx.op("Tree.copy")
    ctx.oracle("copy_preserves")
    c = tree.copy()
    if not isinstance(c, Tree):
        ctx.fail("copy_preserves", "copy() returned %s" % type(c).__name__)
    mc = extract(ctx, c.root, "copy")
    p = same_tree_problems(m, mc, n, 0.0)
    if p:
        ctx.fail("copy_preserves", "; ".join(p))
    if m_canon(m, True) != m_canon(mc, True):
        ctx.fail("copy_preserves", "branch lengths changed by copy()")
    check_leaves(ctx, c, mc, n, "copy")
    ctx.oracle("copy_independent")
    if {id(x.ref) for x in m_nodes(m)} & {id(x.ref) for x in m_nodes(mc)}:
        ctx.fail("copy_independent", "copy shares node objects with the original")
    ctx.oracle("eq_hash_consistent")
    if not (tree == tree) or not (c == tree) or not (tree == c) or (c != tree):
        ctx.fail("eq_hash_consistent", "a copy does not compare equal to its original")
    if hash(c) != hash(tree):
        ctx.fail("eq_hash_consistent", "hash(copy) != hash(original)")
    if tree == 5 or tree == tree.root:
        ctx.fail("eq_hash_consistent", "Tree compares equal to a non-Tree")
    # sub-tree copy through TreeNode.copy
    inner = [x for x in m_nodes(m) if x.parent is not None]
    if inner:
        x = inner[int(rng.integers(len(inner)))]
        ctx.op("TreeNode.copy")
        nc = x.ref.copy()
        if nc.parent is not None or nc.distance is not None or nc.is_root():
            ctx.fail("copy_preserves", "TreeNode.copy() kept parent/distance/root flag")
        if m_canon(extract(ctx, x.ref, "subtree"), True) != m_canon(extract(ctx, nc, "TreeNode.copy"), True):
            ctx.fail("copy_preserves", "TreeNode.copy() changed the subtree")
    # the copy of the root node is an ordinary free node as well ("the parent node and the distance to it is not
    # included"): it can become the child of a new node, e.g. to put an outgroup above the old root
    ctx.op("TreeNode.copy(root)")
    rc = tree.root.copy()
    if rc.parent is not None or rc.distance is not None:
        ctx.fail("copy_preserves", "copy of the root node has a parent / a distance")
    try:
        top = TreeNode([rc, TreeNode(index=n)], [1.5, 2.5])
        bigger = Tree(top)
    except Exception as e:
        ctx.fail("copy_preserves", "the copy of a root node cannot be used as child of a new node: %s: %s" % (type(e).__name__, e))
    if len(bigger.leaves) != n + 1 or rc.parent is not top or rc.distance != 1.5:
        ctx.fail("copy_preserves", "tree built above a copied root has %d leaves (expected %d)" % (len(bigger.leaves), n + 1))
    if not (tree == c):
        ctx.fail("copy_independent", "building a tree above a copy of the root changed the original tree")


def law_binary(ctx, rng, tree, m, n, tol):
    ctx.op("as_binary")
    ctx.oracle("as_binary_preserves")
    b = as_binary(tree)
    if not isinstance(b, Tree):
        ctx.fail("as_binary_preserves", "as_binary(Tree) returned %s" % type(b).__name__)
    mb = extract(ctx, b.root, "as_binary")
    p = binary_problems(m, mb, tol)
    if p:
        ctx.fail("as_binary_preserves", "; ".join(p[:4]))
    check_leaves(ctx, b, mb, n, "as_binary")
    # the source tree is untouched
    if m_canon(extract(ctx, tree.root, "source after as_binary"), True) != m_canon(m, True):
        ctx.fail("as_binary_preserves", "as_binary changed its argument")
    return mb


def law_eq_variant(ctx, rng, tree, m, n):
    """A tree that differs in one leaf branch must not compare equal."""
    if n < 2:
        return
    ctx.oracle("eq_hash_consistent")
    v = m_copy(m)
    leaf = m_leaves(v)[int(rng.integers(n))]
    leaf.distance = float(np.float32(leaf.distance + abs(leaf.distance) + 1.0))      # never the old value (2d+1 is, for d=-1)
    tv = build_real(ctx, v, rng, plain=True)
    ctx.op("Tree.__eq__")
    if tv == tree or tree == tv:
        ctx.fail("eq_hash_consistent", "trees differing in the branch of leaf %d compare equal" % leaf.index)
    # same tree with children listed in another order: judged as observation only
    w = m_copy(m)
    for x in m_nodes(w):
        if x.children is not None and len(x.children) > 1:
            x.children.reverse()
    tw = build_real(ctx, w, rng, plain=True)
    if not (tw == tree) or hash(tw) != hash(tree):
        ctx.note("eq_or_hash_depends_on_child_order")


def tree_laws(ctx, rng, tree, m, n, npairs):
    depth, mass = m_depth_mass(m)
    tol = tol_of(mass, depth)
    law_queries(ctx, rng, tree, m, n, tol, npairs)
    law_newick(ctx, rng, tree, m, n, tol)
    law_copy(ctx, rng, tree, m, n, tol)
    law_binary(ctx, rng, tree, m, n, tol)
    law_eq_variant(ctx, rng, tree, m, n)
    ctx.state(["shape", m_canon(m, False)] if n <= 12 else ["n", n, depth, len(m_nodes(m))])


# =====================================================================
# building real trees from a model
# =====================================================================
_LabelledNode = None


def build_real(ctx, m, rng, plain=False):
    """Create TreeNode objects bottom-up (sets .ref) and wrap them in a Tree."""
    _Base = TreeNode
    if not plain and rng.random() < 0.12:
        ctx.op("tree_of_subclass_nodes")
        global _LabelledNode
        if _LabelledNode is None:
            # a pure-Python subclass of TreeNode (a node that carries an extra attribute), as user code may define it
            _LabelledNode = type("_LabelledNode", (TreeNode,), {"label": None})
        _Base = _LabelledNode
    return _build_real(ctx, m, rng, plain, _Base)


def _build_real(ctx, m, rng, plain, TreeNode):
    for x in reversed(m_nodes(m)):
        ctx.op("TreeNode()")
        if x.children is None:
            x.ref = TreeNode(index=x.index)
            continue
        kids = [c.ref for c in x.children]
        if not plain and rng.random() < 0.4:
            # nodes are used as dictionary keys / set members while the tree is assembled bottom-up (hashed, compared)
            # before they get a parent and a distance
            registry = {k_: True for k_ in kids}
            seen_ = set(kids)
            assert len(registry) == len(seen_) == len(kids)
        ds = [c.distance for c in x.children]
        ds = [int(d) if (not plain and float(d).is_integer() and abs(d) < 2**24 and rng.random() < 0.5) else float(d) for d in ds]
        r = 0.0 if plain else rng.random()
        if r < 0.6:
            x.ref = TreeNode(kids, ds)
        elif r < 0.8:
            x.ref = TreeNode(tuple(kids), tuple(ds))
        elif r < 0.9 and all(isinstance(d, float) for d in ds):
            x.ref = TreeNode(kids, np.array(ds, dtype=np.float64))
        else:
            x.ref = TreeNode(children=kids, distances=ds)
    ctx.op("Tree()")
    return Tree(m.ref)


def random_model_tree(rng, n, draw, max_arity=5, unary=2, caterpillar=False):
    forest = [MNode(index=int(i)) for i in rng.permutation(n)]
    if caterpillar:
        # every inner node has one leaf and the rest of the tree as children: nesting depth n - 1
        spine = forest[0]
        for leaf in forest[1:]:
            kids = [spine, leaf] if rng.random() < 0.5 else [leaf, spine]
            spine = MNode(kids, [draw() for _ in kids])
        return spine
    while True:
        if len(forest) == 1:
            if unary > 0 and rng.random() < 0.5:
                k = 1
            else:
                break
        elif unary > 0 and rng.random() < 0.2:
            k = 1
        else:
            k = min(len(forest), int(rng.integers(2, max_arity + 1)))
        if k == 1:
            unary -= 1
        picks = sorted((int(p) for p in rng.choice(len(forest), size=k, replace=False)), reverse=True)
        kids = [forest.pop(p) for p in picks]
        forest.append(MNode(kids, [draw() for _ in kids]))
    return forest[0]


def branch_drawer(rng, scale, style):
    def draw():
        if style == "unit":
            return float(rng.random()) * scale
        if style == "ints":
            return float(int(rng.integers(0, 6)))
        if style == "zeros":
            return 0.0 if rng.random() < 0.6 else float(rng.random()) * scale
        if style == "neg":
            return float(rng.uniform(-0.3, 1.0)) * scale
        # "gapped": 0 or clearly positive
        return 0.0 if rng.random() < 0.2 else float(rng.uniform(0.05, 1.0)) * scale
    return draw


def pick_scale(rng):
    r = rng.random()
    if r < 0.02:
        return 1e-30
    if r < 0.04:
        return 1e30
    if r < 0.2:
        return float(10.0 ** int(rng.integers(-3, 5)))
    return float(10.0 ** rng.uniform(-3, 4))


def pick_n(rng, lo):
    r = rng.random()
    if r < 0.5:
        return int(rng.integers(lo, 9))
    if r < 0.85:
        return int(rng.integers(9, 21))
    return int(rng.integers(21, 41))


# =====================================================================
# matrices
# =====================================================================
def gen_matrix(rng, n, kind, scale):
    """float64 matrix with zero diagonal; returns (D, integer_valued)."""
    if kind == "metric":
        k = int(rng.integers(1, 5))
        ints = rng.random() < 0.3
        P = rng.integers(0, 4, size=(n, k)).astype(float) if ints else rng.random((n, k))
        D = np.sqrt(((P[:, None, :] - P[None, :, :]) ** 2).sum(-1))
        if ints and rng.random() < 0.5:
            D = np.abs(P[:, None, :] - P[None, :, :]).sum(-1)       # Manhattan: integer valued
        D = D * scale
    elif kind == "ultrametric":
        ints = rng.random() < 0.3
        D = np.zeros((n, n))
        items = [([int(i)], 0.0) for i in rng.permutation(n)]
        while len(items) > 1:
            k = min(len(items), 2 if rng.random() < 0.8 else 3)
            picks = sorted((int(p) for p in rng.choice(len(items), size=k, replace=False)), reverse=True)
            parts = [items.pop(p) for p in picks]
            inc = 0.0 if rng.random() < 0.2 else (float(rng.integers(1, 4)) if ints else float(rng.uniform(0.05, 1.0)))
            h = max(p[1] for p in parts) + inc * scale
            for a in range(k):
                for b in range(a + 1, k):
                    for i in parts[a][0]:
                        for j in parts[b][0]:
                            D[i, j] = D[j, i] = 2.0 * h
            items.append((sum((p[0] for p in parts), []), h))
    elif kind == "additive":
        ints = rng.random() < 0.3

        def draw():
            if rng.random() < 0.2:
                return 0.0
            return (float(rng.integers(1, 5)) if ints else float(rng.uniform(0.05, 1.0))) * scale
        t = random_model_tree(rng, n, draw, max_arity=int(rng.choice([2, 2, 3, 4])), unary=0)
        D, _ = m_leaf_dists(t, n)
    elif kind == "int_ties":
        hi = int(rng.choice([1, 2, 3, 5]))
        A = rng.integers(0, hi + 1, size=(n, n)).astype(float)
        D = np.triu(A, 1)
        D = D + D.T
        s = 1.0 if rng.random() < 0.6 else scale
        D = D * s
    elif kind == "constant":
        D = (1.0 - np.eye(n)) * (0.0 if rng.random() < 0.3 else scale)
    else:  # "symmetric": arbitrary symmetric non-negative
        A = rng.random((n, n)) * scale
        D = np.triu(A, 1)
        D = D + D.T
    np.fill_diagonal(D, 0.0)
    return D


def present(rng, D):
    """The array handed to biotite: dtype and memory layout vary; returns (array, description)."""
    dts = ["float64", "float64", "float64", "float32"]
    if np.all(D == np.round(D)) and float(D.max(initial=0.0)) < 2**31:
        dts += ["int64", "int32", "int64"]
    dt = dts[int(rng.integers(len(dts)))]
    A = D.astype(dt)
    if dt == "float32":
        A = np.maximum(A, A.T)          # float32 rounding is symmetric anyway; keep exact symmetry
    lay = ["C", "C", "F", "view"][int(rng.integers(4))]
    if lay == "F":
        A = np.asfortranarray(A)
    elif lay == "view":
        big = np.zeros((2 * A.shape[0], 2 * A.shape[1]), dtype=A.dtype)
        big[::2, ::2] = A
        A = big[::2, ::2]
    return A, dt, lay


_KINDS = ["metric", "ultrametric", "additive", "int_ties", "symmetric", "constant"]
_KIND_P = [0.2, 0.22, 0.25, 0.18, 0.12, 0.03]


def overflow_matrix(rng, n, for_nj):
    """Finite values below float32 max whose intermediate products overflow float32."""
    v = float(rng.choice([1e38, 2e38, 3e38])) if not for_nj else float(rng.choice([1e38, 3e38]))
    D = (1.0 - np.eye(n)) * v
    if rng.random() < 0.5 and n > 2:
        i, j = 0, 1
        D[i, j] = D[j, i] = v / 2
    return D


def run_clustering(ctx, fn_name, arr, n):
    fn = phylo.upgma if fn_name == "upgma" else phylo.neighbor_joining
    before = arr.copy()
    ctx.op(fn_name)
    ctx.oracle("clustering_completes")
    try:
        tree = fn(arr)
    except TreeError as e:
        ctx.exc(e)
        ctx.fail("clustering_completes", "%s raised TreeError on a valid matrix: %s" % (fn_name, e))
    if tree is None:
        ctx.fail("clustering_completes", "%s returned None on a valid matrix" % fn_name)
    if not np.array_equal(arr, before):
        ctx.note("input_matrix_modified")
    return tree


def case_cluster(fn_name, rng, ctx):
    n = pick_n(rng, 2 if fn_name == "upgma" else 4)
    scale = pick_scale(rng)
    kind = _KINDS[int(rng.choice(len(_KINDS), p=_KIND_P))]
    big = rng.random() < 0.006
    if big:
        # more taxa than a byte can count: one large family of similar taxa (a cluster of >= 256 members forms early)
        # plus a few distant ones whose merge heights depend on the size of that cluster
        n = int(rng.choice([258, 262, 300]))
        kind = "big_family"
        nfar = int(rng.integers(2, 6))
        A = rng.uniform(0.5, 1.5, size=(n, n))
        D = np.triu(A, 1)
        far = rng.choice(n, size=nfar, replace=False)
        for f in far:
            D[f, :] = D[:, f] = rng.uniform(8.0, 30.0)
        D = np.triu(D, 1)
        D = (D + D.T) * scale
        ctx.op("matrix_big_family")
    elif rng.random() < 0.02 and ctx.allowed("float32_overflow_scale"):
        kind = "overflow"
        if fn_name == "nj":
            n = max(n, 6)
        D = overflow_matrix(rng, n, fn_name == "nj")
    else:
        D = gen_matrix(rng, n, kind, scale)
    arr, dt, lay = present(rng, D)
    ctx.log({"fn": fn_name, "kind": kind, "n": n, "dtype": dt, "layout": lay,
             "D": [[float(v) for v in row] for row in np.asarray(arr, dtype=np.float64)] if n <= 60 else "seeded (replay regenerates it)"})
    tree = run_clustering(ctx, fn_name, arr, n)
    if not isinstance(tree, Tree):
        ctx.fail("leaves_are_range_n", "%s returned %s" % (fn_name, type(tree).__name__))
    m = extract(ctx, tree.root, fn_name)
    check_leaves(ctx, tree, m, n, fn_name)
    D64 = np.asarray(arr, dtype=np.float64)
    off = D64[~np.eye(n, dtype=bool)]
    scale_d = float(off.max())
    depth, mass = m_depth_mass(m)
    tol = tol_of(scale_d, depth)
    ctx.mark_nontrivial(n >= 3 and len(np.unique(off)) >= 2)
    if fn_name == "upgma":
        ctx.oracle("upgma_ultrametric")
        ctx.oracle("upgma_node_height_avg_linkage")
        if kind != "overflow":
            probs = upgma_problems(m, D64, tol)
            if probs:
                ctx.fail(probs[0][0], probs[0][1], n=n, kind=kind, more=len(probs))
            if kind in ("ultrametric", "constant"):
                ctx.oracle("upgma_recovers_ultrametric_matrix")
                probs, _ = pathlen_problems(m, D64, tol, "upgma_recovers_ultrametric_matrix")
                if probs:
                    ctx.fail(probs[0][0], probs[0][1], n=n, kind=kind)
    else:
        for x in m_nodes(m):
            if x.children is not None and len(x.children) != (3 if x.parent is None else 2):
                ctx.note("nj_tree_not_binary_with_ternary_root")
                break
        if kind in ("additive", "ultrametric", "constant"):
            ctx.oracle("nj_additive_path_lengths")
            probs, worst = pathlen_problems(m, D64, tol, "nj_additive_path_lengths")
            if probs:
                ctx.fail(probs[0][0], probs[0][1], n=n, kind=kind)
            if tol > 0 and worst > 0.25 * tol:
                ctx.note("nj_error_above_quarter_tolerance")
    if kind != "overflow":
        tree_laws(ctx, rng, tree, m, n, npairs=(12 if ctx.tier == "quick" else 30))


# =====================================================================
# invalid matrices
# =====================================================================
_INVALID = ["asymmetric", "negative", "nan", "inf", "neg_inf", "f32max", "nonsquare", "one_d", "three_d", "nj_small"]


def case_invalid(rng, ctx):
    kind = _INVALID[int(rng.integers(len(_INVALID)))]
    if rng.random() < 0.01 and ctx.allowed("zero_dim_input"):
        kind = "zero_dim"
    n = int(rng.integers(4, 13)) if kind != "nj_small" else int(rng.integers(2, 4))
    scale = float(10.0 ** rng.uniform(-3, 4))
    D = gen_matrix(rng, n, str(rng.choice(["metric", "symmetric", "int_ties"])), scale)
    D = D + (1.0 - np.eye(n)) * 0.1 * scale          # all off-diagonal entries clearly positive
    fns = ["upgma", "nj"]
    i, j = (int(v) for v in rng.choice(n, size=2, replace=False))
    if kind == "asymmetric":
        D[i, j] = D[i, j] * float(rng.choice([0.5, 1.5, 3.0])) + (0.0 if rng.random() < 0.5 else scale)
        if D[i, j] == D[j, i]:
            D[i, j] += scale
    elif kind == "negative":
        v = -float(rng.choice([1.0, 0.5, 1e-3])) * scale
        if rng.random() < 0.2:
            D[i, i] = v
        else:
            D[i, j] = D[j, i] = v
    elif kind in ("nan", "inf", "neg_inf", "f32max"):
        v = {"nan": np.nan, "inf": np.inf, "neg_inf": -np.inf, "f32max": float(rng.choice([F32MAX, 1e39, 1e300]))}[kind]
        r = rng.random()
        if r < 0.6:
            D[i, j] = D[j, i] = v
        elif r < 0.8:
            D[i, j] = v
        else:
            D[i, i] = v
    elif kind == "nonsquare":
        rows = int(rng.integers(1, n + 3))
        cols = rows + int(rng.choice([-1, 1, 2, 5]))
        D = np.resize(D, (rows, max(cols, 0 if rng.random() < 0.1 else 1)))
        if D.shape[0] == D.shape[1]:
            D = D[:, :-1] if D.shape[1] > 1 else np.zeros((1, 2))
    elif kind == "one_d":
        D = D.ravel()[: int(rng.integers(1, 20))].copy()
    elif kind == "three_d":
        k = int(rng.choice([1, 2, n]))
        D = np.repeat(D[:, :, None], k, axis=2)
    elif kind == "nj_small":
        fns = ["nj"]
    elif kind == "zero_dim":
        D = np.array(float(scale))
    if kind in ("asymmetric", "negative") and np.all(D == np.round(D)) and rng.random() < 0.3:
        D = D.astype(np.int64)
    ctx.log({"invalid": kind, "shape": list(D.shape), "dtype": str(D.dtype),
             "D": [[float(v) for v in row] for row in D] if D.ndim == 2 else D.tolist()})
    for fn_name in fns:
        fn = phylo.upgma if fn_name == "upgma" else phylo.neighbor_joining
        ctx.op(fn_name + "_invalid")
        ctx.oracle("invalid_matrix_rejected")
        try:
            res = fn(D)
        except ValueError as e:
            ctx.exc(e)
            ctx.mark_nontrivial()
        else:
            ctx.fail("invalid_matrix_rejected", "%s accepted a matrix with defect '%s' and returned %s"
                     % (fn_name, kind, type(res).__name__), kind=kind)


# =====================================================================
# random trees through the constructors
# =====================================================================
def case_big_tree(rng, ctx):
    """A tree with more leaves than 15 / 16 bits count, assembled level by level through the public constructors."""
    n = int(rng.choice([32767, 32769, 40000, 65537]))
    order = rng.permutation(n)
    nodes = [TreeNode(index=int(i)) for i in order]
    counts = [1] * n
    while len(nodes) > 1:
        nxt, ncnt = [], []
        for a in range(0, len(nodes) - 1, 2):
            nxt.append(TreeNode([nodes[a], nodes[a + 1]], [1.0, 2.0]))
            ncnt.append(counts[a] + counts[a + 1])
        if len(nodes) % 2:
            nxt.append(nodes[-1]); ncnt.append(counts[-1])
        nodes, counts = nxt, ncnt
    root = nodes[0]
    ctx.log({"big_tree": n})
    ctx.op("big_tree")
    ctx.mark_nontrivial()
    ctx.state(("big_tree", n))
    ctx.oracle("leaves_are_range_n")
    try:
        tree = Tree(root)
    except TreeError as e:
        ctx.fail("leaves_are_range_n", "Tree() refused a tree whose %d leaves carry the indices 0..%d: %s" % (n, n - 1, e))
    lv = tree.leaves
    if len(tree) != n or len(lv) != n or any(lv[i].index != i for i in (0, 1, 32767 % n, 32768 % n, n - 1)):
        ctx.fail("leaves_are_range_n", "tree of %d leaves: len(tree) = %d, %d leaves listed, or leaves[i].index != i" % (n, len(tree), len(lv)))
    gi = root.get_indices()
    if root.get_leaf_count() != n or len(gi) != n or not np.array_equal(np.sort(np.asarray(gi)), np.arange(n)):
        ctx.fail("leaves_are_range_n", "tree of %d leaves: get_leaf_count() = %r, get_indices() has %d entries" % (n, root.get_leaf_count(), len(gi)))
    left = root.children[0]
    if left.get_leaf_count() + root.children[1].get_leaf_count() != n:
        ctx.fail("leaves_are_range_n", "tree of %d leaves: the leaf counts of the two root children add up to %d"
                 % (n, left.get_leaf_count() + root.children[1].get_leaf_count()))
    a, b = lv[0], lv[n - 1]
    ctx.oracle("path_queries")
    anc = tree.get_distance(0, n - 1)
    # explicit path sum over parents
    def up(x):
        out = {}
        d = 0.0
        while x is not None:
            out[id(x)] = d
            d += x.distance if x.distance is not None else 0.0
            x = x.parent
        return out
    ua, ub = up(a), up(b)
    best = min(ua[k] + ub[k] for k in ua if k in ub)
    if abs(anc - best) > 1e-9 * max(1.0, best):
        ctx.fail("path_queries", "tree of %d leaves: get_distance(0, %d) = %r, explicit path sum %r" % (n, n - 1, anc, best))


def case_random_tree(rng, ctx):
    if ctx.index % 500 == 499:
        return case_big_tree(rng, ctx)
    n = 1 if rng.random() < 0.03 else pick_n(rng, 2)
    style = str(rng.choice(["unit", "ints", "zeros", "neg", "gapped", "unit"]))
    scale = pick_scale(rng)
    max_arity = int(rng.choice([2, 3, 5, 5]))
    unary = int(rng.integers(0, 5)) if rng.random() < 0.5 else 0
    deep = rng.random() < 0.04
    if deep:
        # nesting deeper than 127 / 255 levels (what the Newick writer emits for such a tree must parse again)
        n = int(rng.choice([126, 129, 130, 200, 257, 300]))
        ctx.op("deep_caterpillar_tree")
    m = random_model_tree(rng, n, branch_drawer(rng, scale, style), max_arity, unary, caterpillar=deep)
    ctx.log({"tree": m_log(m) if not deep else "caterpillar", "n": n, "style": style})
    tree = build_real(ctx, m, rng)
    if tree.root is not m.ref or not m.ref.is_root():
        ctx.fail("construct_matches_model", "Tree.root is not the node given / not marked as root")
    ctx.oracle("construct_matches_model")
    got = extract(ctx, tree.root, "constructed tree")
    if m_canon(got, True) != m_canon(m, True):
        ctx.fail("construct_matches_model", "tree read back differs from the tree that was constructed")
    # order of children is what was passed (observation only)
    if [id(c.ref) for x in m_nodes(m) if x.children for c in x.children] != \
            [id(c.ref) for x in m_nodes(got) if x.children for c in x.children]:
        ctx.note("children_order_differs_from_constructor_order")
    check_leaves(ctx, tree, got, n, "Tree()")
    nodes = m_nodes(m)
    ctx.mark_nontrivial(any(x.children is not None and len(x.children) != 2 for x in nodes)
                        or any(x.distance is not None and x.distance <= 0 for x in nodes))
    tree_laws(ctx, rng, tree, got, n, npairs=(25 if ctx.tier == "quick" else 60))
    # as_binary / == on bare nodes
    sub = np.random.default_rng(int(rng.integers(2**32)))      # rng consumption independent of the quarantine state
    if sub.random() < 0.5 and ctx.allowed("as_binary_on_node"):
        check_as_binary_node(ctx, sub, m)
    if rng.random() < 0.3:
        other_n = int(rng.integers(1, 6))
        mo = random_model_tree(rng, other_n, branch_drawer(rng, scale, style), 3, 1)
        other = build_real(ctx, mo, rng, plain=True)
        # nodes of different trees
        a = nodes[int(rng.integers(len(nodes)))].ref
        b = m_nodes(mo)[int(rng.integers(len(m_nodes(mo))))].ref
        ctx.oracle("path_queries")
        if a.lowest_common_ancestor(b) is not None:
            ctx.fail("path_queries", "lowest_common_ancestor of nodes of two different trees is not None")
        try:
            d = a.distance_to(b)
        except TreeError as e:
            ctx.exc(e)
        else:
            ctx.fail("path_queries", "distance_to between two different trees returned %r" % d)
        one_is_leaf = (m.children is None) != (mo.children is None)
        if not one_is_leaf or ctx.allowed("eq_inner_vs_leaf"):
            ctx.oracle("eq_hash_consistent")
            ctx.op("Tree.__eq__")
            expect = m_canon(m, True) == m_canon(mo, True)
            if (tree == other) != expect and not expect:
                ctx.fail("eq_hash_consistent", "two different trees compare equal")


def check_as_binary_node(ctx, rng, m):
    """as_binary on a TreeNode (documented to return a TreeNode)."""
    cands = [x for x in m_nodes(m) if x.children is not None]
    if not cands:
        return
    x = cands[int(rng.integers(len(cands)))]
    ctx.op("as_binary_node")
    ctx.oracle("as_binary_returns_node")
    res = as_binary(x.ref)
    if not isinstance(res, TreeNode):
        ctx.fail("as_binary_returns_node", "as_binary(TreeNode) returned %s" % type(res).__name__)
    mx = extract(ctx, x.ref, "subtree")
    mb = extract(ctx, res, "as_binary(node)")
    depth, mass = m_depth_mass(mx)
    p = binary_problems(mx, mb, tol_of(mass, depth))
    if p:
        ctx.fail("as_binary_preserves", "as_binary(TreeNode): " + "; ".join(p[:4]))


# =====================================================================
# documented construction errors
# =====================================================================
def expect_error(ctx, what, classes, fn):
    ctx.oracle("construction_error_raised")
    ctx.log("expect", what, [c.__name__ for c in classes])
    try:
        res = fn()
    except classes as e:
        ctx.exc(e)
        ctx.mark_nontrivial()
        return
    ctx.fail("construction_error_raised", "%s: no error (returned %s)" % (what, type(res).__name__))


_ERR_KINDS = ["same_child_twice", "second_parent", "root_as_child", "tree_root_as_child", "no_args", "index_and_children",
              "children_only", "distances_only", "bad_child_type", "bad_distance_type", "no_children", "length_mismatch",
              "negative_index", "as_root_on_child", "tree_indices_out_of_range", "tree_none", "empty_newick",
              "duplicate_index"]


def case_construct_errors(rng, ctx):
    kind = _ERR_KINDS[int(rng.integers(len(_ERR_KINDS)))]
    ctx.op("error_" + kind)
    k = int(rng.integers(1, 5))
    leaves = [TreeNode(index=i) for i in range(k + 1)]
    ds = [float(rng.random()) for _ in range(k + 1)]

    def unchanged(nodes):
        if any(x.parent is not None for x in nodes):
            ctx.note("failed_construction_left_parent_set")

    if kind == "same_child_twice":
        pos = int(rng.integers(k + 1))
        kids = leaves[:pos] + [leaves[0]] + leaves[pos:]
        kids = kids if pos > 0 or k > 0 else [leaves[0], leaves[0]]
        expect_error(ctx, "TreeNode with one child object listed twice", (TreeError,),
                     lambda: TreeNode(kids, [1.0] * len(kids)))
        unchanged(leaves)
    elif kind == "second_parent":
        TreeNode(leaves[:1], ds[:1])
        pos = int(rng.integers(k + 1))
        fresh = [TreeNode(index=10 + i) for i in range(k)]
        kids = fresh[:pos] + [leaves[0]] + fresh[pos:]
        expect_error(ctx, "child that already has a parent (position %d of %d)" % (pos, len(kids)), (TreeError,),
                     lambda: TreeNode(kids, [1.0] * len(kids)))
        unchanged(fresh)
    elif kind == "root_as_child":
        r = TreeNode(leaves[:2] if k >= 1 else leaves[:1], ds[:2] if k >= 1 else ds[:1])
        r.as_root()
        expect_error(ctx, "node finalised with as_root() used as child", (TreeError,), lambda: TreeNode([r], [1.0]))
        if r.parent is not None or not r.is_root():
            ctx.fail("construction_error_raised", "root node changed by the refused construction")
    elif kind == "tree_root_as_child":
        r = TreeNode(leaves, ds)
        Tree(r)
        extra = TreeNode(index=k + 1)
        expect_error(ctx, "root of a Tree used as child", (TreeError,), lambda: TreeNode([extra, r], [1.0, 2.0]))
        unchanged([extra])
    elif kind == "no_args":
        expect_error(ctx, "TreeNode()", (TypeError,), lambda: TreeNode())
    elif kind == "index_and_children":
        expect_error(ctx, "TreeNode(children, distances, index)", (TypeError,), lambda: TreeNode(leaves, ds, index=3))
        unchanged(leaves)
    elif kind == "children_only":
        expect_error(ctx, "TreeNode(children) without distances", (TypeError,), lambda: TreeNode(leaves))
        unchanged(leaves)
    elif kind == "distances_only":
        expect_error(ctx, "TreeNode(distances=...) without children", (TypeError,), lambda: TreeNode(distances=ds))
    elif kind == "bad_child_type":
        bad = [5, "x", None, 1.5][int(rng.integers(4))]
        kids = leaves[:-1] + [bad]
        expect_error(ctx, "child of type %s" % type(bad).__name__, (TypeError,), lambda: TreeNode(kids, ds))
        unchanged(leaves)
    elif kind == "bad_distance_type":
        bad = ["1.0", None, [1.0], 1j][int(rng.integers(4))]
        dd = ds[:-1] + [bad]
        expect_error(ctx, "distance of type %s" % type(bad).__name__, (TypeError,), lambda: TreeNode(leaves, dd))
        unchanged(leaves)
    elif kind == "no_children":
        expect_error(ctx, "TreeNode([], [])", (TreeError,), lambda: TreeNode([], []))
    elif kind == "length_mismatch":
        dd = ds[:-1] if rng.random() < 0.5 else ds + [1.0]
        expect_error(ctx, "%d children, %d distances" % (len(leaves), len(dd)), (ValueError,), lambda: TreeNode(leaves, dd))
        unchanged(leaves)
    elif kind == "negative_index":
        v = -int(rng.integers(1, 1000))
        expect_error(ctx, "TreeNode(index=%d)" % v, (ValueError,), lambda: TreeNode(index=v))
    elif kind == "as_root_on_child":
        TreeNode(leaves, ds)
        c = leaves[int(rng.integers(k + 1))]
        expect_error(ctx, "as_root() on a node that has a parent", (TreeError,), lambda: c.as_root())
        if c.is_root():
            ctx.fail("construction_error_raised", "child became root although as_root() raised")
    elif kind == "tree_indices_out_of_range":
        hole = int(rng.integers(k + 1))
        idx = [i if i < hole else i + 1 + int(rng.integers(0, 3)) for i in range(k + 1)]
        nodes = [TreeNode(index=i) for i in idx]
        r = TreeNode(nodes, ds)
        expect_error(ctx, "Tree with leaf indices %s" % idx, (TreeError,), lambda: Tree(r))
    elif kind == "tree_none":
        expect_error(ctx, "Tree(None)", (TypeError,), lambda: Tree(None))
    elif kind == "empty_newick":
        s = ["", " ", "\n"][int(rng.integers(3))]
        expect_error(ctx, "from_newick(%r)" % s, (InvalidFileError,), lambda: Tree.from_newick(s))
    elif kind == "duplicate_index":
        # not documented either way: observation only
        nodes = [TreeNode(index=0), TreeNode(index=0)] + [TreeNode(index=i) for i in range(2, k + 1)]
        try:
            t = Tree(TreeNode(nodes, [1.0] * len(nodes)))
        except TreeError as e:
            ctx.exc(e)
            ctx.note("duplicate_leaf_index_rejected")
        else:
            ctx.note("duplicate_leaf_index_accepted" + ("_none_in_leaves" if any(x is None for x in t.leaves) else ""))


# =====================================================================
def run_case(stratum, rng, ctx):
    if stratum == "upgma":
        return case_cluster("upgma", rng, ctx)
    if stratum == "nj":
        return case_cluster("nj", rng, ctx)
    if stratum == "random_tree":
        return case_random_tree(rng, ctx)
    if stratum == "invalid_matrix":
        return case_invalid(rng, ctx)
    if stratum == "construct_errors":
        return case_construct_errors(rng, ctx)
    raise KeyError(stratum)


# =====================================================================
# oracle audit
# =====================================================================
def _naive_upgma(D):
    """Textbook UPGMA in float64 on the model; ties broken by first minimum."""
    n = D.shape[0]
    clusters = {i: (MNode(index=i), [i], 0.0) for i in range(n)}
    while len(clusters) > 1:
        best = None
        keys = sorted(clusters)
        for a in range(len(keys)):
            for b in range(a + 1, len(keys)):
                A, B = clusters[keys[a]][1], clusters[keys[b]][1]
                d = float(D[np.ix_(A, B)].mean())
                if best is None or d < best[0]:
                    best = (d, keys[a], keys[b])
        d, ka, kb = best
        (na, la, ha), (nb, lb, hb) = clusters.pop(ka), clusters.pop(kb)
        node = MNode([na, nb], [d / 2 - ha, d / 2 - hb])
        # keep float64 branch lengths (MNode rounds to float32; restore)
        na.distance, nb.distance = d / 2 - ha, d / 2 - hb
        clusters[ka] = (node, la + lb, d / 2)
    return next(iter(clusters.values()))[0]


def selftest(ctx):
    rng = np.random.default_rng(19)
    # 1. model path sums: all-pairs routine vs explicit parent-pointer walks vs docstring example
    l0, l1, l2 = MNode(index=0), MNode(index=1), MNode(index=2)
    root = MNode([MNode([l0, l1], [5.0, 7.0]), l2], [3.0, 10.0])
    D, T = m_leaf_dists(root, 3)
    assert D.tolist() == [[0, 12, 18], [12, 0, 20], [18, 20, 0]], D
    assert T.tolist() == [[0, 2, 3], [2, 0, 3], [3, 3, 0]], T
    assert ref_query(l0, l1)[1:] == (12.0, 2) and ref_query(l0, l2)[0] is root and ref_query(l0, l0)[1:] == (0.0, 0)
    assert ref_query(l0, MNode(index=0))[0] is None
    for _ in range(40):
        n = int(rng.integers(1, 9))
        t = random_model_tree(rng, n, branch_drawer(rng, 1.0, "neg"), 5, 3)
        D, T = m_leaf_dists(t, n)
        lv = {x.index: x for x in m_leaves(t)}
        assert sorted(lv) == list(range(n))
        for i in range(n):
            for j in range(n):
                lca, d, e = ref_query(lv[i], lv[j])
                assert abs(d - D[i, j]) < 1e-12 and e == T[i, j], (i, j, d, D[i, j])
        # canonical form: child order irrelevant, content relevant
        w = m_copy(t)
        for x in m_nodes(w):
            if x.children:
                x.children.reverse()
        assert m_canon(w, True) == m_canon(t, True)
        if n >= 2:
            v = m_copy(t)
            a, b = m_leaves(v)[0], m_leaves(v)[1]
            a.index, b.index = b.index, a.index
            same = (a.parent is b.parent and a.distance == b.distance)
            assert (m_canon(v, True) == m_canon(t, True)) == same
            assert not same_tree_problems(t, w, n, 0.0)
            v2 = m_copy(t)
            m_leaves(v2)[0].distance += 1.0
            assert same_tree_problems(t, v2, n, 1e-6)
    # 2. own Newick reader on the documented strings
    r, d = parse_newick("((0:5.0,1:7.0):3.0,2:10.0):0.0;")
    assert d == 0.0 and m_leaf_dists(r, 3)[0].tolist() == [[0, 12, 18], [12, 0, 20], [18, 20, 0]]
    r, d = parse_newick("((foo,bar),foobar);", ["foo", "bar", "foobar"])
    assert d is None and m_canon(r, False) == m_canon(root, False)
    r, _ = parse_newick("((0:1.0):2.0):0.0;")
    assert m_depth_mass(r) == (2, 3.0)
    for bad in ["(0,1;", "(0,1));", "(0,1)", "(0,,1)x;"]:
        try:
            parse_newick(bad)
        except (ValueError, IndexError):
            pass
        else:
            raise AssertionError("own reader accepted %r" % bad)
    assert "".join(add_whitespace(rng, "((0:5.0,1:7.0):3.0,2:10.0):0.0;").split()) == "((0:5.0,1:7.0):3.0,2:10.0):0.0;"
    # 3. UPGMA oracle: accepts a naive float64 UPGMA, rejects perturbed trees
    for _ in range(25):
        n = int(rng.integers(2, 9))
        kind = ["symmetric", "int_ties", "ultrametric", "metric"][int(rng.integers(4))]
        D = gen_matrix(rng, n, kind, 10.0)
        t = _naive_upgma(D)
        assert not upgma_problems(t, D, 1e-9), (kind, upgma_problems(t, D, 1e-9))
        if kind == "ultrametric":
            assert not pathlen_problems(t, D, 1e-9, "x")[0]
            assert float(np.abs(D - D.T).max()) == 0 and all(
                D[i, j] <= max(D[i, k], D[k, j]) + 1e-12 for i in range(n) for j in range(n) for k in range(n))
        if float(D.max()) > 0:
            inner = [x for x in m_nodes(t) if x.children is not None]
            x = inner[int(rng.integers(len(inner)))]
            x.children[0].distance += 0.01 * float(D.max())
            assert upgma_problems(t, D, 1e-9)
    # textbook example: clusters {0,1} at 0.5, {2,3} at 1.0
    D = np.array([[0, 1, 7, 7, 9], [1, 0, 7, 6, 8], [7, 7, 0, 2, 4], [7, 6, 2, 0, 3], [9, 8, 4, 3, 0]], dtype=float)
    t = _naive_upgma(D)
    hs = sorted(round(float(np.mean([d for (_, d, _) in m_below(t)[id(x)]])), 9) for x in m_nodes(t) if x.children)
    assert hs == [0.5, 1.0, 1.75, round(44 / 12, 9)], hs
    # 4. additive oracle
    for _ in range(25):
        n = int(rng.integers(4, 10))
        D = gen_matrix(rng, n, "additive", 3.0)
        assert float(np.abs(D - D.T).max()) == 0
        # four-point condition
        for (i, j, k, l) in rng.integers(0, n, size=(30, 4)):
            s = sorted([D[i, j] + D[k, l], D[i, k] + D[j, l], D[i, l] + D[j, k]])
            assert abs(s[2] - s[1]) < 1e-9
    t = random_model_tree(rng, 6, branch_drawer(rng, 1.0, "unit"), 3, 0)
    D, _ = m_leaf_dists(t, 6)
    assert not pathlen_problems(t, D, 1e-12, "x")[0]
    m_leaves(t)[0].distance += 0.5
    assert pathlen_problems(t, D, 1e-6, "x")[0]
    # 5. as_binary oracle on hand-made cases
    def tern():
        return MNode([MNode(index=0), MNode(index=1), MNode(index=2)], [1.0, 2.0, 3.0])
    good = MNode([MNode([MNode(index=0), MNode(index=1)], [1.0, 2.0]), MNode(index=2)], [0.0, 3.0])
    assert not binary_problems(tern(), good, 1e-9)
    bad_len = MNode([MNode([MNode(index=0), MNode(index=1)], [1.0, 2.0]), MNode(index=2)], [0.5, 3.0])
    assert binary_problems(tern(), bad_len, 1e-9)
    assert binary_problems(tern(), tern(), 1e-9)                       # not binary
    unary = MNode([MNode([MNode(index=0), MNode(index=1)], [1.0, 1.0])], [4.0])
    assert not binary_problems(unary, MNode([MNode(index=0), MNode(index=1)], [1.0, 1.0]), 1e-9)
    nested = MNode([MNode([MNode(index=0), MNode(index=1)], [1.0, 1.0]), MNode(index=2), MNode(index=3)], [1.0, 1.0, 1.0])
    cut = MNode([MNode([MNode(index=0), MNode(index=2)], [2.0, 1.0]), MNode([MNode(index=1), MNode(index=3)], [2.0, 1.0])], [0.0, 0.0])
    assert binary_problems(nested, cut, 1e-9)                          # clade {0,1} lost
    lost = MNode([MNode(index=0), MNode(index=1)], [1.0, 2.0])
    assert binary_problems(tern(), lost, 1e-9)
    # 6. tolerance is what DESIGN says
    assert tol_of(2.0, 3) == 64 * EPS32 * 2.0 * 3 and tol_of(1.0, 0) == 64 * EPS32


# =====================================================================
# probes (one isolated subprocess each)
# =====================================================================
def _probe_as_binary_node(ctx):
    """as_binary() on a TreeNode is documented to return a TreeNode."""
    rng = np.random.default_rng(1)
    shapes = [
        MNode([MNode(index=0), MNode(index=1), MNode(index=2)], [1.0, 2.0, 3.0]),
        MNode([MNode(index=0), MNode(index=1)], [1.0, 2.0]),
        MNode([MNode([MNode(index=0), MNode(index=1)], [1.0, 1.0])], [4.0]),
    ]
    for m in shapes:
        ctx.log("as_binary(TreeNode)", m_log(m))
        for x in reversed(m_nodes(m)):
            x.ref = TreeNode(index=x.index) if x.children is None else TreeNode([c.ref for c in x.children], [c.distance for c in x.children])
        ctx.op("as_binary_node")
        ctx.oracle("as_binary_returns_node")
        try:
            res = as_binary(m.ref)
        except TypeError as e:
            ctx.fail("as_binary_returns_node", "as_binary(parentless TreeNode) raised TypeError: %s" % e)
        if not isinstance(res, TreeNode):
            ctx.fail("as_binary_returns_node", "as_binary(TreeNode) returned %s %r" % (type(res).__name__, res))
        p = binary_problems(extract(ctx, m.ref, "node"), extract(ctx, res, "as_binary(node)"), 1e-6)
        if p:
            ctx.fail("as_binary_preserves", "; ".join(p))


def _probe_eq_inner_vs_leaf(ctx):
    """== between a tree whose root is a leaf and a tree whose root is an inner node."""
    a = Tree(TreeNode([TreeNode(index=0)], [1.0]))
    b = Tree(TreeNode(index=0))
    ctx.log("Tree(TreeNode([TreeNode(index=0)],[1.0])) == Tree(TreeNode(index=0))")
    for x, y in ((a, b), (b, a)):
        ctx.op("Tree.__eq__")
        ctx.oracle("eq_hash_consistent")
        try:
            r = (x == y)
        except TypeError as e:
            ctx.fail("eq_hash_consistent", "== raised TypeError: %s" % e)
        if r is not False:
            ctx.fail("eq_hash_consistent", "trees of different shape compare as %r" % (r,))
    n1 = TreeNode([TreeNode(index=0), TreeNode(index=1)], [0.0, 0.0])
    ctx.oracle("eq_hash_consistent")
    try:
        r = (n1 == TreeNode(index=0))
    except TypeError as e:
        ctx.fail("eq_hash_consistent", "inner TreeNode == leaf TreeNode raised TypeError: %s" % e)
    if r is not False:
        ctx.fail("eq_hash_consistent", "inner node equals leaf node")


def _probe_overflow_scale(ctx):
    """Finite entries below float32 max whose products overflow float32 inside the loops."""
    for fn_name, n, v in (("upgma", 3, 3e38), ("upgma", 5, 1e38), ("nj", 40, 1e37), ("nj", 6, 1e38), ("upgma", 2, 3e38)):
        D = (1.0 - np.eye(n)) * v
        ctx.log(fn_name, n, v)
        tree = run_clustering(ctx, fn_name, D, n)
        m = extract(ctx, tree.root, fn_name)
        check_leaves(ctx, tree, m, n, fn_name)
        ctx.oracle("clustering_completes")
        if not all(np.isfinite(x.distance) for x in m_nodes(m) if x.parent is not None):
            ctx.fail("clustering_completes", "%s: non-finite branch length for finite input %g" % (fn_name, v))


def _probe_zero_dim(ctx):
    """A 0-d array is not a matrix: ValueError documented for non-square input."""
    for fn_name in ("upgma", "nj"):
        fn = phylo.upgma if fn_name == "upgma" else phylo.neighbor_joining
        ctx.log(fn_name, "np.array(3.0)")
        ctx.op(fn_name + "_invalid")
        ctx.oracle("invalid_matrix_rejected")
        try:
            res = fn(np.array(3.0))
        except (ValueError, IndexError) as e:
            ctx.exc(e)
        else:
            ctx.fail("invalid_matrix_rejected", "%s accepted a 0-d array and returned %r" % (fn_name, res))


PROBES = {
    "as_binary_on_node": _probe_as_binary_node,
    "eq_inner_vs_leaf": _probe_eq_inner_vs_leaf,
    "float32_overflow_scale": _probe_overflow_scale,
    "zero_dim_input": _probe_zero_dim,
}
