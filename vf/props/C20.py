"""C20  Application wrappers follow their life cycle and always clean up.

Monitors: (1) life-cycle automaton in lock-step with every API call; (2) an
offline checker over the audit-hook event log (tempfile.mkstemp / os.remove /
os.chdir / subprocess.Popen) evaluated when a run has ended; (3) psutil/proc
liveness of the child; (4) a call counter wrapped around clean_up.
Fake external tools live in /verif/fixtures/bin (faketool.py).
Level: fault_enumeration - all call sequences up to a bounded length x tool
behaviours x wrappers are enumerated, not sampled.
"""

import itertools
import os
import shutil
import sys
import time

import numpy as np

ID = "C20"
FLAVOUR = "plain"
LEVEL = "fault_enumeration"
EXHAUSTIVE = False   # call sequences are enumerated completely, input sets and (wrapper, behaviour) pairing of length-3 sequences are not
RULE = (
    "enumeration: every call sequence of length <= 3 (quick) / <= 4 (thorough) over the wrapper API alphabet "
    "{start, join, join(timeout), cancel, get_app_state, setter, get_command, get_exit_code, get_stdout, get_alignment, "
    "get_alignment_order, get_guide_tree} is executed against each (wrapper, tool behaviour) pair assigned round-robin in "
    "quick and as the full product in thorough; wrappers = minimal LocalApp subclass + ClustalOmega/Muscle3/Muscle5/Mafft "
    "wrappers on fake executables; behaviours = ok, reorder, exit3, hang, garbage, missing record, no tree file, binary "
    "deleted after construction, non-existent exec dir, killed by SIGSEGV / SIGKILL after writing valid output.  Non-trivial: the sequence contains start and at least one more "
    "call; distinct = distinct (wrapper, behaviour, input set, call sequence)."
)
SEQ_LEN = {"quick": 3, "thorough": 4}
ALPHABET = ["start", "join", "join_timeout", "cancel", "get_app_state", "setter", "get_command", "get_exit_code",
            "get_stdout", "get_alignment", "get_alignment_order", "get_guide_tree"]
WRAPPERS = ["echo", "clustalo", "muscle3", "muscle5", "mafft"]
BEHAVIOURS = ["ok", "reorder", "exit3", "hang", "garbage", "missing", "notree", "missing_binary", "bad_exec_dir", "killed11", "killed9"]


def _nseq(L):
    return sum(len(ALPHABET) ** k for k in range(1, L + 1))


STRATA = {
    # one case = one call sequence on one (wrapper, behaviour, inputs) configuration
    "enum_roundrobin": (_nseq(3), 0),
    "enum_product_len2": (_nseq(2) * len(WRAPPERS) * len(BEHAVIOURS), 0),
    "enum_product_len3": (0, _nseq(3) * len(WRAPPERS) * len(BEHAVIOURS)),
    "enum_len4_roundrobin": (0, len(ALPHABET) ** 4),
    "canonical_runs": (len(WRAPPERS) * len(BEHAVIOURS) * 20, len(WRAPPERS) * len(BEHAVIOURS) * 80),
    # a pure-Python Application (no child process) driven through the base class' own join()/timeout loop
    "generic_app": (240, 4000),
    # wrappers whose constructor raises (wrong program version, missing program): nothing may be left behind
    "construct_failure": (60, 600),
}
REQUIRED_ORACLES = ["lifecycle_automaton", "rejected_call_no_side_effect", "resources_released", "clean_up_once", "results_match_tool",
                    "cwd_unchanged_by_call", "launched_in_exec_dir", "command_line_matches_setters",
                    "generic_join_contract", "constructor_failure_leaves_nothing"]
ANCHORS = [
    "biotite.application.application:Application.start",
    "biotite.application.application:Application.cancel",
    "biotite.application.application:Application.get_app_state",
    "biotite.application.localapp:LocalApp.run",
    "biotite.application.localapp:LocalApp.join",
    "biotite.application.localapp:LocalApp.is_finished",
    "biotite.application.localapp:LocalApp.evaluate",
    "biotite.application.localapp:LocalApp.clean_up",
    "biotite.application.msaapp:MSAApp.run",
    "biotite.application.msaapp:MSAApp.evaluate",
    "biotite.application.msaapp:MSAApp.clean_up",
    "biotite.application.util:map_sequence",
    "biotite.application.util:map_matrix",
]
ASSUMPTIONS = [
    "external programs are fakes (fixtures/bin/faketool.py) that implement the command lines the wrappers emit",
    "a hanging tool is only ever joined with a timeout (a plain join would block by design)",
    "zombie children (killed but not yet reaped by the interpreter) are counted, not judged",
    "get_app_state is called after the driver has waited for the child to exit (except for the hanging tool), so the automaton is deterministic",
    "an application object that is never started is outside the statement ('whenever a run ends'); its temp files are removed by the driver",
]
MIN_CASES_PER_WORKER = 40
WATCHDOG = {"quick": 1500, "thorough": 6 * 3600}
MANIFEST = {
    "technique": "fault enumeration: all API call sequences up to a bound x tool behaviours x wrappers, lock-step life-cycle automaton, offline checker over the sys.addaudithook event log (mkstemp/remove/chdir/Popen), child liveness via psutil, clean_up call counter",
    "level_text": "Runtime monitoring with exhaustive enumeration of the bounded space: every call sequence up to length 3 (quick) / 4 (thorough) over the wrapper API is executed against real wrapper objects driving fake executables with 11 behaviours; an automaton predicts success/AppStateError per call, rejected calls must leave state unchanged, and when a run has ended an offline checker over the audit-hook log demands that every temp file created was removed, the cwd is restored, no child is alive and clean_up ran exactly once.",
    "level_note": "Trusts the automaton (read from the requires_state decorators and the class docstring), the fake tools and the audit events of CPython 3.12.  Real external programs are not installed.  Bound: sequence length <= 4, input sets of 2-6 short sequences.",
    "design_ref": "DESIGN.md section 6, C20",
}

FIX = os.path.join(os.path.dirname(os.path.dirname(os.path.dirname(os.path.abspath(__file__)))), "fixtures", "bin")

app_mod = None
seqmod = None
align = None
AUDIT = {"on": False, "events": []}
CLEANUPS = {}
_installed = [False]
WORK = None


def _audit(event, args):
    if not AUDIT["on"]:
        return
    if event == "tempfile.mkstemp":
        AUDIT["events"].append(("mkstemp", args[0]))
    elif event == "os.remove":
        AUDIT["events"].append(("remove", os.fspath(args[0]) if args[0] is not None else None))
    elif event == "os.chdir":
        AUDIT["events"].append(("chdir", os.fspath(args[0])))
    elif event == "subprocess.Popen":
        AUDIT["events"].append(("popen", args[0]))


def setup(ctx):
    global app_mod, seqmod, align, WORK, EchoApp
    import biotite.application as app_
    import biotite.application.clustalo as clustalo
    import biotite.application.mafft as mafft
    import biotite.application.muscle as muscle
    import biotite.sequence as seq_
    import biotite.sequence.align as align_
    from biotite.application.localapp import LocalApp
    app_mod, seqmod, align = app_, seq_, align_
    WORK = os.environ.get("VERIF_WORK") or os.getcwd()
    if not _installed[0]:
        sys.addaudithook(_audit)
        _installed[0] = True

    class EchoApp(LocalApp):
        """Minimal LocalApp subclass: runs the 'echo' fake and keeps its stdout."""

        def __init__(self, bin_path):
            super().__init__(bin_path)
            self.result = None

        def run(self):
            self.set_arguments(["a", "b"])
            super().run()

        def evaluate(self):
            super().evaluate()
            self.result = self.get_stdout()

    globals()["EchoApp"] = EchoApp
    globals()["CLASSES"] = {
        "echo": EchoApp, "clustalo": clustalo.ClustalOmegaApp, "muscle3": muscle.MuscleApp,
        "muscle5": muscle.Muscle5App, "mafft": mafft.MafftApp,
    }
    # clean_up call counter on the most derived classes (super().clean_up() chains are not counted twice)
    for name, cls in CLASSES.items():
        orig = cls.clean_up

        def make(orig):
            def clean_up(self):
                CLEANUPS[id(self)] = CLEANUPS.get(id(self), 0) + 1
                return orig(self)
            clean_up.__wrapped__ = orig
            return clean_up
        cls.clean_up = make(orig)


# ------------------------------------------------------------------ inputs
def make_inputs(rng, kind):
    n = int(rng.integers(2, 7))
    if rng.random() < 0.12:
        n = int(rng.integers(10, 14))      # two-digit record labels
    if kind == "protein":
        letters = "ACDEFGHIKLMNPQRSTVWY"
        texts = ["".join(rng.choice(list(letters), size=int(rng.integers(1, 12)))) for _ in range(n)]
        if rng.random() < 0.25:
            # another sequence type over a letter alphabet that the amino acid alphabet extends (its first 20 symbols):
            # documented to be aligned as protein, without mapping
            alph = seqmod.LetterAlphabet(letters)
            assert seqmod.ProteinSequence.alphabet.extends(alph)
            return [seqmod.GeneralSequence(alph, t) for t in texts], None
        return [seqmod.ProteinSequence(t) for t in texts], None
    if kind == "nucleotide":
        return [seqmod.NucleotideSequence("".join(rng.choice(list("ACGT"), size=int(rng.integers(1, 12))))) for _ in range(n)], None
    # mapped general alphabet with custom matrix
    # a small alphabet, or one with exactly as many symbols as the amino acid alphabet it is mapped into (the largest
    # that can be mapped; the last codes map onto the ambiguity and stop letters)
    nprot = len(seqmod.ProteinSequence.alphabet)
    size = 4 if rng.random() < 0.7 else nprot
    alph = seqmod.Alphabet(["foo", "bar", 42, ("t", 1)] + ["s%d" % i for i in range(size - 4)])
    seqs = []
    for _ in range(n):
        codes = [int(i) for i in rng.integers(0, size, size=int(rng.integers(1, 9)))]
        if size > 4 and rng.random() < 0.5:
            codes[0] = size - 1
        s = seqmod.GeneralSequence(alph, [alph.get_symbols()[i] for i in codes])
        seqs.append(s)
    mat = rng.integers(-5, 6, size=(size, size))
    mat = (mat + mat.T).astype(np.int32)
    return seqs, align.SubstitutionMatrix(alph, alph, mat)


# ------------------------------------------------------------------ automaton
ALLOWED = {
    "start": {"CREATED"},
    "join": {"RUNNING", "FINISHED"},
    "join_timeout": {"RUNNING", "FINISHED"},
    "cancel": {"RUNNING", "FINISHED"},
    "get_app_state": {"CREATED", "RUNNING", "FINISHED", "JOINED", "CANCELLED"},
    "setter": {"CREATED"},
    "get_command": {"RUNNING", "CANCELLED", "FINISHED", "JOINED"},
    "get_exit_code": {"FINISHED", "JOINED"},
    "get_stdout": {"FINISHED", "JOINED"},
    "get_alignment": {"JOINED"},
    "get_alignment_order": {"JOINED"},
    "get_guide_tree": {"JOINED"},
}
JOIN_FAILS = {"exit3", "garbage", "missing", "killed11", "killed9"}


def join_fails(wrapper, beh):
    if wrapper == "echo":
        return beh in ("exit3", "killed11", "killed9")
    if beh in JOIN_FAILS:
        return True
    if beh == "notree" and wrapper in ("clustalo", "mafft"):
        return True      # these wrappers parse the tree file unconditionally
    return False


def trigger_of(wrapper, beh, seq):
    """Known-finding trigger classes touched by this configuration (see PROBES)."""
    t = []
    if wrapper == "mafft":
        t.append("mafft_clean_up")
    if beh in ("missing_binary", "bad_exec_dir") and "start" in seq:
        t.append("launch_failure")
    if join_fails(wrapper, beh) and ("join" in seq or "join_timeout" in seq):
        t.append("join_evaluate_fails")
    return t


class Case:
    """One wrapper object, one fake-tool behaviour, one call sequence."""

    def __init__(self, ctx, rng, wrapper, beh, seq, kind):
        self.ctx, self.rng, self.wrapper, self.beh, self.seq, self.kind = ctx, rng, wrapper, beh, seq, kind
        self.state = "CREATED"
        self.ended = None          # how the run ended: joined | cancelled | timeout | join_failed | launch_failed
        self.pid = None
        self.extra = []            # additional options accepted by the wrapper (setter in CREATED)
        self.stubborn = False
        self.given_tree = False
        self.full_matrix = False
        self.expect_opts = {}      # option -> value the wrapper-specific setters asked for
        self.expect_flag = None

    # -------------------------------------------------------------- helpers
    def tool_mode(self):
        return self.beh if self.beh in ("ok", "reorder", "exit3", "hang", "garbage", "missing", "notree", "killed11", "killed9") else "ok"

    def wait_child(self):
        if self.pid is None or self.tool_mode() == "hang":
            return
        import psutil
        for _ in range(4000):
            try:
                p = psutil.Process(self.pid)
                if p.status() == psutil.STATUS_ZOMBIE:
                    return
            except psutil.NoSuchProcess:
                return
            time.sleep(0.002)
        self.ctx.inconclusive("child %d did not exit within the watchdog" % self.pid)

    def tool_runs(self):
        """argv/cwd lines the fake tool logged for real runs (version probes excluded)."""
        try:
            lines = [l.rstrip("\n").split("\t") for l in open(self.fake_log) if l.strip()]
        except OSError:
            return []
        return [l for l in lines if len(l) >= 4 and "-version" not in l[3].split("\x1f")[:1]]

    def wait_tool_log(self):
        """The stubborn tool installs its signal handlers before it writes its log line."""
        for _ in range(2500):
            if self.tool_runs():
                self.ctx.note("stubborn_tool_running")
                return
            time.sleep(0.002)
        self.ctx.note("stubborn_tool_log_not_seen")

    def snapshot(self):
        # RUNNING -> FINISHED is the lazy poll every state query performs once the tool has exited
        # (also the one inside the AppStateError message); it is not a side effect of the rejected call
        st = self.app._state.name
        return ("ACTIVE" if st in ("RUNNING", "FINISHED") else st, os.getcwd(), tuple(sorted(p for p in self.temp_paths() if os.path.exists(p))),
                CLEANUPS.get(id(self.app), 0))

    def temp_paths(self):
        ps = [e[1] for e in AUDIT["events"] if e[0] == "mkstemp"]
        if self.wrapper == "mafft" and ps:
            ps = ps + [p + ".tree" for p in ps if p.endswith(".fa")]
        return ps

    # -------------------------------------------------------------- run
    def construct(self):
        ctx = self.ctx
        self.cwd0 = os.getcwd()
        self.cwd_at_construct = self.cwd0
        binpath = os.path.join(FIX, self.wrapper)
        self.scratch_bin = None
        if self.beh == "missing_binary":
            d = os.path.join(WORK, "bin-%d" % os.getpid())
            os.makedirs(d, exist_ok=True)
            binpath = os.path.join(d, self.wrapper)
            shutil.copy(os.path.join(FIX, "faketool.py"), binpath)
            self.scratch_bin = binpath
        os.environ["VF_FAKE_MODE"] = "ok"
        AUDIT["events"] = []
        AUDIT["on"] = True
        CLEANUPS.clear()
        if self.rng.random() < 0.5:
            # a second wrapper object of the same process is configured and dropped before the judged one exists:
            # nothing of it may show up in the judged run (makes cross-object leaks replayable from one case)
            decoy = EchoApp(os.path.join(FIX, "echo"))
            decoy.add_additional_options(["--vf-extra=decoy"])
            decoy.set_exec_dir(WORK)
            del decoy
            self.ctx.op("decoy_wrapper_configured")
        if self.wrapper == "echo":
            self.inputs, self.matrix = None, None
            self.app = EchoApp(binpath)
        else:
            self.inputs, self.matrix = make_inputs(self.rng, self.kind)
            cls = CLASSES[self.wrapper]
            if self.matrix is not None:
                self.app = cls(self.inputs, binpath, matrix=self.matrix)
            elif self.wrapper == "muscle5":
                self.app = cls(self.inputs, binpath)
            else:
                self.app = cls(self.inputs, binpath)
        if self.beh == "missing_binary":
            os.remove(self.scratch_bin)
            AUDIT["events"] = [e for e in AUDIT["events"] if not (e[0] == "remove" and e[1] == self.scratch_bin)]
        if self.beh == "bad_exec_dir":
            self.app.set_exec_dir(os.path.join(WORK, "does", "not", "exist"))
        os.environ["VF_FAKE_MODE"] = self.tool_mode()
        os.environ["VF_FAKE_PAD"] = "alt" if self.rng.random() < 0.5 else ""
        self.alt = os.environ["VF_FAKE_PAD"] == "alt"
        # output order of the 'reorder' tool: a random permutation (mostly not its own inverse)
        n = len(self.inputs) if self.inputs is not None else 0
        self.perm = [int(k) for k in self.rng.permutation(n)] if n else []
        if n >= 3 and self.rng.random() < 0.7:
            k = int(self.rng.integers(1, n))
            self.perm = [(i + k) % n for i in range(n)]          # cyclic rotation
        os.environ["VF_FAKE_PERM"] = ",".join(str(k) for k in self.perm)
        self.fake_log = os.path.join(WORK, "fake-%d.log" % os.getpid())
        try:
            os.remove(self.fake_log)
        except OSError:
            pass
        os.environ["VF_FAKE_LOG"] = self.fake_log
        # half of the hanging tools ignore SIGTERM/SIGINT/SIGHUP: only a kill ends them
        self.stubborn = self.tool_mode() == "hang" and self.rng.random() < 0.5
        os.environ["VF_FAKE_IGNTERM"] = "1" if self.stubborn else ""
        self.exec_dir = None
        # the process may change its working directory between construction and start (a legal history)
        if self.rng.random() < 0.5:
            d = os.path.join(WORK, "cwd-%d" % int(self.rng.integers(3)))
            os.makedirs(d, exist_ok=True)
            os.chdir(d)
            self.cwd0 = os.getcwd()
            self.ctx.op("driver_chdir_between_construct_and_start")

    def call(self, op):
        ctx, app = self.ctx, self.app
        ctx.op(op)
        allowed = self.state in ALLOWED[op]
        if op == "get_guide_tree" and self.wrapper in ("echo", "muscle5"):
            return            # no such method on this wrapper
        if op in ("get_alignment", "get_alignment_order") and self.wrapper == "echo":
            return
        if self.state == "RUNNING":
            self.wait_child()       # makes the lazy RUNNING -> FINISHED poll deterministic
        before = self.snapshot()
        if op == "join" and self.tool_mode() == "hang" and allowed:
            op = "join_timeout"      # a plain join on a hanging tool blocks by design
        fn = {
            "start": app.start,
            "join": app.join,
            "join_timeout": lambda: app.join(timeout=(0.15 if self.tool_mode() == "hang" else 30)),
            "cancel": app.cancel,
            "get_app_state": app.get_app_state,
            "setter": self.setter,
            "get_command": app.get_command,
            "get_exit_code": app.get_exit_code,
            "get_stdout": app.get_stdout,
            "get_alignment": getattr(app, "get_alignment", None),
            "get_alignment_order": getattr(app, "get_alignment_order", None),
            "get_guide_tree": getattr(app, "get_guide_tree", None),
        }[op]
        ctx.oracle("lifecycle_automaton")
        try:
            res = fn()
            raised = None
        except app_mod.AppStateError as e:
            raised = e
        except BaseException as e:
            raised = e
        if not allowed:
            if not isinstance(raised, app_mod.AppStateError):
                ctx.fail("lifecycle_automaton", "%s in state %s: expected AppStateError, got %s"
                         % (op, self.state, "a result" if raised is None else "%s: %s" % (type(raised).__name__, raised)))
            ctx.exc(raised)
            ctx.oracle("rejected_call_no_side_effect")
            after = self.snapshot()
            if after != before:
                ctx.fail("rejected_call_no_side_effect", "rejected %s changed observable state %r -> %r" % (op, before, after))
            real = app._state.name
            if self.state == "RUNNING" and real == "FINISHED" and self.tool_mode() != "hang":
                ctx.note("poll_inside_rejected_call_RUNNING_to_FINISHED")
                self.state = "FINISHED"
            elif real != self.state:
                ctx.fail("rejected_call_no_side_effect", "rejected %s moved the wrapper from %s to %s" % (op, self.state, real))
            return
        if isinstance(raised, app_mod.AppStateError):
            ctx.fail("lifecycle_automaton", "%s in state %s raised AppStateError although the life cycle allows it: %s" % (op, self.state, raised))
        # ---- allowed call: model transition + expected outcome
        if op == "start":
            if self.beh in ("missing_binary", "bad_exec_dir"):
                if raised is None:
                    ctx.fail("lifecycle_automaton", "start succeeded although the tool cannot be launched (%s)" % self.beh)
                if not isinstance(raised, OSError):
                    ctx.fail("lifecycle_automaton", "launch failure surfaced as %s: %s" % (type(raised).__name__, raised))
                ctx.exc(raised)
                # the life cycle is concluded: the wrapper is CANCELLED and the later calls of the sequence follow that
                # row of the table (get_command() still tells what could not be launched)
                self.ended = "launch_failed"
                self.state = "CANCELLED"
                real = app._state.name
                if real != self.state:
                    ctx.fail("lifecycle_automaton", "after a failed launch the wrapper is in state %s, automaton %s" % (real, self.state))
                return
            if raised is not None:
                raise raised
            self.state = "RUNNING"
            self.pid = app._process.pid
            if self.stubborn:
                self.wait_tool_log()
        elif op in ("join", "join_timeout"):
            if self.tool_mode() == "hang":
                # LocalApp.join raises the builtin TimeoutError, Application.join biotite's own class;
                # the statement does not fix which one
                if not isinstance(raised, (app_mod.TimeoutError, TimeoutError)):
                    ctx.fail("lifecycle_automaton", "join(timeout) on a hanging tool: expected TimeoutError, got %r" % (raised,))
                ctx.exc(raised)
                self.state, self.ended = "CANCELLED", "timeout"
            elif join_fails(self.wrapper, self.beh) and not (self.beh == "notree" and self.wrapper == "clustalo" and self.given_tree):
                # (with a guide tree given by the caller, Clustal-Omega is not asked for one and none is read)
                if raised is None:
                    ctx.fail("results_match_tool", "join succeeded although the tool failed / wrote unusable output (%s)" % self.beh)
                ctx.exc(raised)
                self.state, self.ended = "CANCELLED", "join_failed"
            else:
                if raised is not None:
                    raise raised
                self.state, self.ended = "JOINED", "joined"
                self.check_results()
        elif op == "cancel":
            if raised is not None:
                raise raised
            self.state, self.ended = "CANCELLED", "cancelled"
        elif op == "get_app_state":
            if raised is not None:
                raise raised
            if self.state == "RUNNING" and self.tool_mode() != "hang":
                self.state = "FINISHED"
            if res.name != self.state:
                ctx.fail("lifecycle_automaton", "get_app_state() = %s, automaton %s" % (res.name, self.state))
        else:
            if raised is not None:
                raise raised
            if op in ("get_alignment", "get_alignment_order", "get_guide_tree") and self.state == "JOINED":
                pass
        real = app._state.name
        if real != self.state:
            ctx.fail("lifecycle_automaton", "after %s the wrapper is in state %s, automaton %s" % (op, real, self.state))

    def specific_setter(self):
        """A CREATED-only setter of the concrete wrapper class (some are called twice: the later call replaces the earlier)."""
        rng, app, n = self.rng, self.app, len(self.inputs or [])
        w = self.wrapper
        if w == "clustalo":
            which = str(rng.choice(["guide_tree", "guide_tree_twice", "full_matrix", "distance_matrix", "full_and_distance", "full_and_distance"]))
            if which.startswith("guide_tree"):
                import biotite.sequence.phylo as phylo
                for _ in range(2 if which.endswith("twice") else 1):
                    d = rng.uniform(0.1, 1.0, size=(n, n))
                    d = (d + d.T) / 2
                    np.fill_diagonal(d, 0)
                    app.set_guide_tree(phylo.upgma(d))
                self.given_tree = True
            elif which in ("full_matrix", "full_and_distance"):
                if which == "full_and_distance":
                    # both options together (either order): the matrix read after the run is the one the program reported
                    d = rng.uniform(0.1, 1.0, size=(n, n))
                    d = (d + d.T) / 2
                    np.fill_diagonal(d, 0)
                    first = rng.random() < 0.5
                    if first:
                        app.set_distance_matrix(d)
                    app.full_matrix_calculation()
                    if not first:
                        app.set_distance_matrix(d)
                else:
                    app.full_matrix_calculation()
                self.full_matrix = True
            else:
                d = rng.uniform(0.1, 1.0, size=(n, n))
                d = (d + d.T) / 2
                np.fill_diagonal(d, 0)
                how = int(rng.integers(4))
                if how == 1:
                    d = d.astype(np.float32)
                elif how == 2:
                    d = np.rint(d * 20).astype(np.int64)          # difference counts
                elif how == 3:
                    d = np.asfortranarray(np.rint(d * 20).astype(np.uint8))
                self.ctx.op("clustalo_distance_matrix_%s" % d.dtype)
                app.set_distance_matrix(d)
            self.ctx.op("clustalo_setter_" + which)
        elif w == "muscle3":
            gpv = -float(rng.integers(1, 12)) if rng.random() < 0.5 else (-float(rng.integers(5, 12)), -float(rng.integers(1, 4)))
            app.set_gap_penalty(gpv)
            go_, ge_ = (gpv, gpv) if isinstance(gpv, float) else gpv
            self.expect_opts.update({"-gapopen": "%.1f" % go_, "-gapextend": "%.1f" % ge_})
            self.ctx.op("muscle3_set_gap_penalty")
        elif w == "muscle5":
            which = str(rng.choice(["iterations", "iterations_one", "threads", "super5"]))
            if which == "iterations":
                c_, r_ = int(rng.integers(1, 4)), int(rng.integers(5, 50))
                app.set_iterations(consistency=c_, refinement=r_)
                self.expect_opts.update({"-consiters": str(c_), "-refineiters": str(r_)})
            elif which == "iterations_one":
                r_ = int(rng.integers(5, 50))
                app.set_iterations(refinement=r_)
                self.expect_opts.update({"-refineiters": str(r_)})
            elif which == "threads":
                t_ = int(rng.integers(1, 4))
                app.set_thread_number(t_)
                self.expect_opts.update({"-threads": str(t_)})
            else:
                app.use_super5()
                self.expect_flag = "-super5"
            self.ctx.op("muscle5_setter_" + which)
        else:
            app.add_additional_options([])

    def setter(self):
        """One of the CREATED-only setters; set_exec_dir is tracked so that the launch directory can be judged."""
        if self.wrapper in ("clustalo", "muscle3", "muscle5") and self.rng.random() < 0.35:
            return self.specific_setter()
        if self.beh != "bad_exec_dir" and self.rng.random() < 0.5:
            d = os.path.join(WORK, "exec-%d" % int(self.rng.integers(3)))
            os.makedirs(d, exist_ok=True)
            self.app.set_exec_dir(d)
            if self.app._state.name == "CREATED":
                self.exec_dir = d
            self.ctx.op("set_exec_dir")
        else:
            opts = [] if self.rng.random() < 0.3 else ["--vf-extra=%d.%d" % (self.ctx.index, len(self.extra))]
            self.app.add_additional_options(opts)      # raises AppStateError outside CREATED
            self.extra += opts
            self.ctx.op("add_additional_options")

    def check_launch_dir(self):
        """The tool must have been started in the requested execution directory (default: cwd at construction)."""
        if self.tool_mode() == "hang" or self.pid is None:
            return
        self.wait_child()
        runs = self.tool_runs()
        if not runs:
            return
        self.ctx.oracle("launched_in_exec_dir")
        want = self.exec_dir or self.cwd_at_construct
        if os.path.realpath(runs[-1][2]) != os.path.realpath(want):
            self.ctx.fail("launched_in_exec_dir", "tool ran in %s, execution directory is %s" % (runs[-1][2], want))
        # the command line carries exactly the options this wrapper object was given - none from another
        # wrapper object of the process, none from a rejected setter call
        self.ctx.oracle("command_line_matches_setters")
        argv_ = runs[-1][3].split("\x1f")
        seen = [a for a in argv_ if a.startswith("--vf-extra=")]
        if seen != self.extra:
            self.ctx.fail("command_line_matches_setters", "tool was started with additional options %s, this wrapper was given %s" % (seen, self.extra))
        for opt_, val_ in self.expect_opts.items():
            got_ = argv_[argv_.index(opt_) + 1] if opt_ in argv_ and argv_.index(opt_) + 1 < len(argv_) else None
            if got_ != val_:
                self.ctx.fail("command_line_matches_setters", "the setter asked for %s %s, the tool was started with %s %s" % (opt_, val_, opt_, got_), argv=argv_)
        if self.expect_flag is not None and self.expect_flag not in argv_:
            self.ctx.fail("command_line_matches_setters", "the setter asked for %s, the tool was started without it" % self.expect_flag, argv=argv_)

    def check_results(self):
        ctx, app = self.ctx, self.app
        ctx.oracle("results_match_tool")
        if self.wrapper == "echo":
            if app.result != "ECHO " + " ".join(self.extra + ["a", "b"]) + "\n":
                ctx.fail("results_match_tool", "stdout %r" % (app.result,))
            if app.get_exit_code() != 0:
                ctx.fail("results_match_tool", "exit code %r" % (app.get_exit_code(),))
            return
        ali = app.get_alignment()
        order = [int(x) for x in app.get_alignment_order()]
        n = len(self.inputs)
        exp_order = list(self.perm) if self.tool_mode() == "reorder" else list(range(n))
        if order != exp_order:
            ctx.fail("results_match_tool", "alignment order %s, tool wrote %s" % (order, exp_order))
        if len(ali.sequences) != n or any(a is not b and not (a == b) for a, b in zip(ali.sequences, self.inputs)):
            ctx.fail("results_match_tool", "alignment sequences are not the inputs in input order")
        for i, s in enumerate(self.inputs):
            if type(ali.sequences[i]) is not type(s):
                ctx.fail("results_match_tool", "sequence %d came back as %s, input was %s" % (i, type(ali.sequences[i]).__name__, type(s).__name__))
        width = max(len(s) for s in self.inputs)
        trace = ali.trace
        if trace.shape != (width, n):
            ctx.fail("results_match_tool", "trace shape %s, tool wrote %d columns for %d sequences" % (trace.shape, width, n))
        for i, s in enumerate(self.inputs):
            L = len(s)
            left = self.alt and i % 2 == 1
            exp = ([-1] * (width - L) + list(range(L))) if left else (list(range(L)) + [-1] * (width - L))
            if trace[:, i].tolist() != exp:
                ctx.fail("results_match_tool", "row %d of the trace %s, tool wrote %s" % (i, trace[:, i].tolist(), exp))
        if self.wrapper == "clustalo" and self.full_matrix:
            dm = app.get_distance_matrix()
            exp = np.array([[0.0 if a == b else 0.1 * (1 + abs(a - b)) for b in range(n)] for a in range(n)])
            if np.shape(dm) != (n, n) or not np.allclose(dm, exp, atol=1e-5):
                ctx.fail("results_match_tool", "get_distance_matrix() is not the matrix the tool wrote", got=np.asarray(dm).tolist())
        if hasattr(app, "get_guide_tree") and self.wrapper != "muscle5":
            tree = app.get_guide_tree()
            if tree is not None:
                leaves = sorted(l.index for l in tree.leaves)
                if leaves != list(range(n)):
                    ctx.fail("results_match_tool", "guide tree leaves %s" % leaves)
            elif not (self.wrapper == "muscle3" and self.tool_mode() == "notree"):
                ctx.fail("results_match_tool", "no guide tree although the tool wrote one")

    # -------------------------------------------------------------- end of run
    def check_resources(self):
        """Offline checker over the audit log, evaluated once the run has ended."""
        ctx = self.ctx
        import psutil
        ctx.oracle("resources_released")
        ev = list(AUDIT["events"])
        created = [e[1] for e in ev if e[0] == "mkstemp"]
        removed = {e[1] for e in ev if e[0] == "remove"}
        left = [p for p in self.temp_paths() if os.path.exists(p)]
        not_removed = [p for p in created if p not in removed]
        if left or not_removed:
            ctx.fail("resources_released", "run ended by %s: temp files left behind %s (created %d, os.remove seen for %d)"
                     % (self.ended, [os.path.basename(p) for p in (left or not_removed)], len(created), len(removed & set(created))),
                     events=[e for e in ev if e[0] != "popen"][-30:])
        chdirs = [e[1] for e in ev if e[0] == "chdir"]
        ctx.note("chdir_events_seen", len(chdirs))     # audit events also record attempts that failed
        if os.getcwd() != self.cwd0:
            bad = os.getcwd()
            os.chdir(self.cwd0)
            ctx.fail("resources_released", "run ended by %s: working directory left at %s (started in %s)" % (self.ended, bad, self.cwd0))
        if self.pid is not None:
            alive = False
            for _ in range(500):
                try:
                    p = psutil.Process(self.pid)
                    st = p.status()
                except psutil.NoSuchProcess:
                    alive = False
                    break
                if st == psutil.STATUS_ZOMBIE:
                    ctx.note("zombie_child_after_end")
                    alive = False
                    break
                alive = True
                if self.ended in ("joined", "join_failed"):
                    time.sleep(0.002)      # the tool was exiting on its own
                    continue
                time.sleep(0.002)
            if alive:
                ctx.fail("resources_released", "run ended by %s: child process %d is still running" % (self.ended, self.pid))
        ctx.oracle("clean_up_once")
        k = CLEANUPS.get(id(self.app), 0)
        if k != 1:
            ctx.fail("clean_up_once", "run ended by %s: clean_up ran %d times" % (self.ended, k))

    def finish(self):
        """Driver-side tidy-up for histories that end before the run ended (not judged)."""
        AUDIT["on"] = False
        try:
            if self.ended is None and self.app._state.name in ("RUNNING", "FINISHED"):
                self.app.cancel()
        except Exception:
            pass
        try:
            p = getattr(self.app, "_process", None)
            if p is not None:
                try:
                    p.kill()
                except Exception:
                    pass
                try:
                    p.communicate(timeout=5)
                except Exception:
                    pass
        finally:
            for path in self.temp_paths():
                try:
                    os.remove(path)
                except OSError:
                    pass
            for attr in dir(self.app):
                f = getattr(self.app, attr, None)
                if hasattr(f, "close") and hasattr(f, "name") and attr.startswith("_"):
                    try:
                        f.close()
                    except Exception:
                        pass
            os.chdir(self.cwd_at_construct)

    def execute(self):
        ctx = self.ctx
        ctx.log({"wrapper": self.wrapper, "behaviour": self.beh, "inputs": self.kind, "calls": list(self.seq)})
        if "start" in self.seq and len(self.seq) > 1:
            ctx.mark_nontrivial()
        self.construct()
        try:
            for op in self.seq:
                if self.state == "ENDED":
                    break
                self.call(op)
                ctx.oracle("cwd_unchanged_by_call")
                if os.getcwd() != self.cwd0:
                    bad = os.getcwd()
                    os.chdir(self.cwd0)
                    ctx.fail("cwd_unchanged_by_call", "%s left the working directory at %s (was %s)" % (op, bad, self.cwd0))
                ctx.state((self.wrapper, self.beh, self.state, self.ended))
            if self.ended is not None:
                self.check_resources()
                if self.ended in ("joined", "join_failed", "cancelled"):
                    self.check_launch_dir()
        finally:
            self.finish()


def decode_seq(index, maxlen):
    """index -> call sequence, enumerating lengths 1..maxlen in order."""
    k = len(ALPHABET)
    for L in range(1, maxlen + 1):
        if index < k ** L:
            out = []
            for _ in range(L):
                out.append(ALPHABET[index % k])
                index //= k
            return tuple(out[::-1])
        index -= k ** L
    raise IndexError(index)


def allowed_config(ctx, wrapper, beh, seq):
    return all(ctx.allowed(t) for t in trigger_of(wrapper, beh, seq))


def pick_allowed(ctx, index, seq):
    """Round-robin (wrapper, behaviour) assignment that skips quarantined configurations."""
    nw, nb = len(WRAPPERS), len(BEHAVIOURS)
    for shift in range(nw * nb):
        j = (index * 7 + shift) % (nw * nb)
        w, b = WRAPPERS[j % nw], BEHAVIOURS[j // nw]
        if allowed_config(ctx, w, b, seq):
            return w, b
    return None


def input_kind(wrapper, rng):
    if wrapper in ("muscle3", "mafft"):
        return str(rng.choice(["protein", "nucleotide", "mapped"]))
    return str(rng.choice(["protein", "nucleotide"]))


CANONICAL = [("start", "join"), ("start", "cancel"), ("start", "join_timeout"), ("start", "get_app_state", "join"),
             ("start", "get_app_state", "cancel"), ("start", "join", "get_alignment", "get_alignment_order"),
             # configured runs: one or two setter calls (wrapper specific setters included) before the run
             ("setter", "start", "join"), ("setter", "setter", "start", "join", "get_alignment"), ("setter", "setter", "start", "cancel"),
             ("setter", "start", "get_app_state", "get_stdout", "join")]


def case_generic_app(rng, ctx):
    """A pure-Python Application (as a web service wrapper would be): start, optional pause, join with or without timeout.
    Judged: join succeeds iff the job is finished (a finished job is never timed out, however late join() is called),
    a hanging job raises TimeoutError after about the timeout, a failing evaluate() propagates; in every case clean_up ran
    exactly once and the final state is JOINED or CANCELLED."""
    from biotite.application.application import Application, AppState
    mode = str(rng.choice(["ok", "ok", "slow", "hang", "evalfail"]))
    duration = {"ok": 0.0, "slow": 0.06, "hang": 1e9, "evalfail": 0.0}[mode]
    pause = float(rng.choice([0.0, 0.0, 0.03, 0.12]))
    timeout = [None, 0.02, 0.05, 0.5][int(rng.integers(4))]
    if mode == "hang" and timeout is None:
        timeout = 0.05
    log = {"clean": 0, "evaluated": 0}

    class PyApp(Application):
        def run(self):
            self.t0 = time.monotonic()

        def is_finished(self):
            return time.monotonic() - self.t0 >= duration

        def wait_interval(self):
            return 0.005

        def evaluate(self):
            log["evaluated"] += 1
            if mode == "evalfail":
                raise ValueError("unusable result")
            self.result = 42

        def clean_up(self):
            log["clean"] += 1

    ctx.log({"generic_app": mode, "pause": pause, "timeout": timeout})
    ctx.op("generic_app_" + mode)
    ctx.mark_nontrivial()
    app = PyApp()
    app.start()
    if pause:
        time.sleep(pause)
    elapsed_before_join = time.monotonic() - app.t0
    finished_before_join = elapsed_before_join >= duration
    raised = None
    t1 = time.monotonic()
    try:
        app.join() if timeout is None else app.join(timeout=timeout)
    except BaseException as e:
        raised = e
    waited = time.monotonic() - t1
    ctx.oracle("generic_join_contract")
    ctx.exc(raised) if raised is not None else None
    state = app.get_app_state() if app._state.name in ("JOINED", "CANCELLED") else app._state
    info = dict(mode=mode, pause=pause, timeout=timeout, waited=round(waited, 3), raised=repr(raised), state=str(state))
    if mode == "hang":
        if not isinstance(raised, (app_mod.TimeoutError, TimeoutError)):
            ctx.fail("generic_join_contract", "join(timeout=%r) on a job that never finishes raised %r" % (timeout, raised), **info)
        if state != AppState.CANCELLED:
            ctx.fail("generic_join_contract", "after the timeout the state is %s" % state, **info)
    elif mode == "evalfail":
        will_finish = finished_before_join or timeout is None or timeout > 0.2
        if will_finish and not isinstance(raised, ValueError):
            ctx.fail("generic_join_contract", "the exception of evaluate() did not reach the caller of join(): %r" % (raised,), **info)
    else:
        # finished already, or finishing well inside the timeout (slow: 0.06 s against 0.5 s; nothing tighter is judged)
        must_succeed = finished_before_join or timeout is None or (timeout - (duration - elapsed_before_join)) > 0.25
        if must_succeed:
            if raised is not None:
                ctx.fail("generic_join_contract", "join() of a job that %s raised %r" % ("had already finished" if finished_before_join else "finishes in time", raised), **info)
            if state != AppState.JOINED or getattr(app, "result", None) != 42:
                ctx.fail("generic_join_contract", "after join() the state is %s, result %r" % (state, getattr(app, "result", None)), **info)
        else:
            ctx.note("generic_join_outcome_depends_on_timing")
    ctx.oracle("clean_up_once")
    if raised is None or mode in ("hang", "evalfail") or isinstance(raised, (app_mod.TimeoutError, TimeoutError)):
        if log["clean"] != 1:
            ctx.fail("clean_up_once", "generic application: clean_up ran %d times (mode %s, raised %r)" % (log["clean"], mode, raised), **info)
    ctx.state(("generic", mode, timeout is None, pause > 0, type(raised).__name__))


def case_construct_failure(rng, ctx):
    """A wrapper whose constructor raises must not leave temporary files behind (nobody holds an object to clean up)."""
    import tempfile
    which = str(rng.choice(["muscle3_on_muscle5", "muscle5_on_muscle3", "muscle3_missing", "muscle5_missing", "muscle3_garbage"]))
    seqs, _ = make_inputs(rng, "protein")
    bins = {"muscle3_on_muscle5": ("muscle3", os.path.join(FIX, "muscle5")), "muscle5_on_muscle3": ("muscle5", os.path.join(FIX, "muscle3")),
            "muscle3_missing": ("muscle3", os.path.join(WORK, "no-such-dir", "muscle")), "muscle5_missing": ("muscle5", os.path.join(WORK, "no-such-dir", "muscle")),
            "muscle3_garbage": ("muscle3", os.path.join(FIX, "echo"))}
    wrapper, binpath = bins[which]
    ctx.log({"construct_failure": which})
    ctx.op("construct_failure_" + which)
    ctx.mark_nontrivial()
    os.environ["VF_FAKE_MODE"] = "ok"
    AUDIT["events"] = []
    AUDIT["on"] = True
    raised = None
    try:
        CLASSES[wrapper](seqs, binpath)
    except BaseException as e:
        raised = e
    finally:
        AUDIT["on"] = False
    ctx.oracle("constructor_failure_leaves_nothing")
    if raised is None:
        ctx.fail("constructor_failure_leaves_nothing", "%s accepted the program %s" % (CLASSES[wrapper].__name__, binpath))
    ctx.exc(raised)
    created = [e[1] for e in AUDIT["events"] if e[0] == "mkstemp"]
    left = [p_ for p_ in created if os.path.exists(p_)]
    for p_ in left:
        try:
            os.remove(p_)
        except OSError:
            pass
    if left:
        ctx.fail("constructor_failure_leaves_nothing", "%s(...) raised %s and left %d temporary file(s) behind: %s"
                 % (CLASSES[wrapper].__name__, type(raised).__name__, len(left), [os.path.basename(x) for x in left]))
    ctx.state(("construct_failure", which, type(raised).__name__))


def run_case(stratum, rng, ctx):
    if stratum == "generic_app":
        return case_generic_app(rng, ctx)
    if stratum == "construct_failure":
        return case_construct_failure(rng, ctx)
    i = ctx.index
    if stratum == "enum_roundrobin":
        seq = decode_seq(i, 3)
        wb = pick_allowed(ctx, i, seq)
    elif stratum == "enum_len4_roundrobin":
        seq = decode_seq(i + _nseq(3), 4)
        wb = pick_allowed(ctx, i, seq)
    elif stratum in ("enum_product_len3", "enum_product_len2"):
        nseq = _nseq(3 if stratum.endswith("3") else 2)
        seq = decode_seq(i % nseq, 3)
        j = i // nseq
        wb = (WRAPPERS[j % len(WRAPPERS)], BEHAVIOURS[j // len(WRAPPERS)])
        if not allowed_config(ctx, wb[0], wb[1], seq):
            ctx.note("configuration_quarantined_by_known_finding")
            wb = None
    else:
        j = i % (len(WRAPPERS) * len(BEHAVIOURS))
        wb = (WRAPPERS[j % len(WRAPPERS)], BEHAVIOURS[j // len(WRAPPERS)])
        seq = CANONICAL[(i // (len(WRAPPERS) * len(BEHAVIOURS))) % len(CANONICAL)]
        if not allowed_config(ctx, wb[0], wb[1], seq):
            ctx.note("configuration_quarantined_by_known_finding")
            wb = None
    if wb is None:
        ctx.inconclusive("configuration quarantined by a known finding")
    Case(ctx, rng, wb[0], wb[1], seq, input_kind(wb[0], rng)).execute()


def selftest(ctx):
    assert decode_seq(0, 3) == ("start",) and decode_seq(len(ALPHABET), 3) == ("start", "start")
    seen = {decode_seq(i, 3) for i in range(_nseq(3))}
    assert len(seen) == _nseq(3) == 12 + 144 + 1728
    assert seen == {t for L in (1, 2, 3) for t in itertools.product(ALPHABET, repeat=L)}
    # automaton table equals the decorators' requires_state sets
    for w in WRAPPERS:
        assert os.access(os.path.join(FIX, w), os.X_OK), w


# ------------------------------------------------------------------ probes
def _run_probe(ctx, configs):
    rng = np.random.default_rng(20)
    for wrapper, beh, seq in configs:
        Case(ctx, rng, wrapper, beh, seq, "protein").execute()


def _probe_join_evaluate_fails(ctx):
    """S20a: the tool fails or writes unusable output -> join raises; clean-up must still have run once."""
    _run_probe(ctx, [(w, b, ("start", "join")) for w in ("echo", "clustalo", "muscle3", "muscle5") for b in ("exit3", "garbage", "missing")
                     if join_fails(w, b)])


def _probe_launch_failure(ctx):
    """S20b: the executable / exec dir does not exist -> start raises; cwd and temp files must be restored/removed."""
    _run_probe(ctx, [(w, b, ("start",)) for w in ("echo", "clustalo", "muscle5") for b in ("bad_exec_dir", "missing_binary")])


def _probe_mafft_clean_up(ctx):
    """S21: MafftApp.clean_up does not chain to MSAApp/LocalApp.clean_up."""
    _run_probe(ctx, [("mafft", "ok", ("start", "join")), ("mafft", "reorder", ("start", "join", "get_alignment")),
                     ("mafft", "ok", ("start", "cancel")), ("mafft", "hang", ("start", "join_timeout"))])


def _probe_get_command_after_failed_launch(ctx):
    """S85: after a launch that failed (exec dir / executable missing) the wrapper is CANCELLED, where get_command() is allowed."""
    _run_probe(ctx, [(w, b, ("start", "get_command", "get_app_state", "get_command")) for w in ("echo", "clustalo", "muscle5")
                     for b in ("bad_exec_dir", "missing_binary")])


PROBES = {
    "join_evaluate_fails": _probe_join_evaluate_fails,
    "launch_failure": _probe_launch_failure,
    "get_command_after_failed_launch": _probe_get_command_after_failed_launch,
    "mafft_clean_up": _probe_mafft_clean_up,
}
