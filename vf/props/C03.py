"""C03  Symbol encoding is a bijection and sequences behave like their strings.

Monitor: differential oracle on every generated input.  Reference models
(vf/models/c03_ref.py) are a dict codec, radix k-mer codes, Python list/str
sequence semantics, the IUPAC complement table, NCBI genetic codes written as
"standard code + documented differences", a per-codon translation and a naive
ORF scan.  The workload runs in the ASan/UBSan flavour because codec.pyx and
kmeralphabet.pyx contain boundscheck(False) loops.
"""

import itertools

import numpy as np

from vf.models import c03_ref as R

ID = "C03"
FLAVOUR = "san"
LEVEL = "exploration"
THOROUGH_MULT = 2.5       # deepens the sampled strata of the thorough tier (measured: about ten minutes on 16 cores)
RULE = (
    "seeded generator, one stratum per mechanism: letter_grid = for every alphabet size 1..94 a random "
    "subset/order of the 94 printable letters and ALL 256 byte values as bytes/S1-array/str/list input and all "
    "256 code values (complete 94x256 grid in both tiers; thorough repeats it with other subsets); letter/generic = "
    "random alphabets, symbol sequences of length 0..200 in every accepted container form, injected out-of-alphabet "
    "symbols, code arrays of every integer dtype with edge values {-2^31,-len,-1,0,len-1,len,255,256,256+k,2^16+k}; "
    "mapper = source/target alphabets (permuted superset, prefix-extension, identical, missing symbol); kmer = base "
    "alphabets x k 2..6 (and k up to 9 for codes above 2^53) x contiguous/spaced (str/list/array forms), "
    "encode/decode/fuse/split/create_kmers; sequence = lock-step operation histories (1-10 ops) on "
    "General/Nucleotide/ProteinSequence against a Python list; complement; translate/orf = random and codon-built "
    "DNA (0-300 nt) x 25 shipped tables, default table, random tables through the CodonTable constructor, derived "
    "tables.  A case is non-trivial when it holds at least one non-empty sequence and either >=2 distinct symbols "
    "or one injected illegal symbol/code; distinct = distinct digest of the logged inputs."
)
STRATA = {
    "letter_grid": (94, 94 * 6),
    "letter": (3500, 160000),
    "generic": (2500, 120000),
    "mapper": (2500, 120000),
    "kmer": (3000, 150000),
    "sequence": (4000, 200000),
    "complement": (1500, 60000),
    "translate": (1500, 90000),
    "orf": (1500, 100000),
}
# functions that must leave their arguments untouched (vf.core.PurityMonitor; '!' = the object itself is watched too)
PURE = [
    "biotite.sequence.alphabet:Alphabet.encode_multiple",
    "biotite.sequence.alphabet:Alphabet.decode_multiple",
    "biotite.sequence.alphabet:LetterAlphabet.encode_multiple",
    "biotite.sequence.alphabet:LetterAlphabet.decode_multiple",
    "biotite.sequence.alphabet:AlphabetMapper.__getitem__",
    "biotite.sequence.sequence:Sequence.__getitem__!",
    "biotite.sequence.sequence:Sequence.__add__!",
    "biotite.sequence.sequence:Sequence.reverse!",
    "biotite.sequence.sequence:Sequence.__eq__!",
    "biotite.sequence.sequence:Sequence.__str__!",
    "biotite.sequence.seqtypes:NucleotideSequence.complement!",
    "biotite.sequence.seqtypes:NucleotideSequence.translate!",
    "biotite.sequence.codon:CodonTable.map_codon_codes",
    "biotite.sequence.align.kmeralphabet:KmerAlphabet.create_kmers",
    "biotite.sequence.align.kmeralphabet:KmerAlphabet.fuse",
    "biotite.sequence.align.kmeralphabet:KmerAlphabet.split",
]
REQUIRED_ORACLES = [
    "letter_grid", "roundtrip_letter", "roundtrip_generic", "symbol_out_of_alphabet_rejected",
    "code_out_of_range_rejected", "mapper_preserves_symbol", "kmer_code_vs_radix", "kmer_fuse_split",
    "kmer_create_vs_naive", "seq_vs_model", "copy_independent", "complement_iupac", "complement_involution",
    "translate_vs_lookup", "orf_vs_naive", "table_lookup",
]
ANCHORS = [
    "biotite.sequence.alphabet:Alphabet.encode",
    "biotite.sequence.alphabet:Alphabet.decode",
    "biotite.sequence.alphabet:Alphabet.encode_multiple",
    "biotite.sequence.alphabet:Alphabet.decode_multiple",
    "biotite.sequence.alphabet:LetterAlphabet.encode",
    "biotite.sequence.alphabet:LetterAlphabet.decode",
    "biotite.sequence.alphabet:LetterAlphabet.encode_multiple",
    "biotite.sequence.alphabet:LetterAlphabet.decode_multiple",
    "biotite.sequence.alphabet:AlphabetMapper.__init__",
    "biotite.sequence.alphabet:AlphabetMapper.__getitem__",
    "biotite.sequence.sequence:Sequence.symbols",
    "biotite.sequence.sequence:Sequence.code",
    "biotite.sequence.sequence:Sequence.__getitem__",
    "biotite.sequence.sequence:Sequence.__setitem__",
    "biotite.sequence.sequence:Sequence.__add__",
    "biotite.sequence.sequence:Sequence.__eq__",
    "biotite.sequence.sequence:Sequence.__str__",
    "biotite.sequence.sequence:Sequence.reverse",
    "biotite.sequence.sequence:Sequence.copy",
    "biotite.sequence.seqtypes:NucleotideSequence.__init__",
    "biotite.sequence.seqtypes:NucleotideSequence.complement",
    "biotite.sequence.seqtypes:NucleotideSequence.translate",
    "biotite.sequence.seqtypes:ProteinSequence.__init__",
    "biotite.sequence.codon:CodonTable.__init__",
    "biotite.sequence.codon:CodonTable.__getitem__",
    "biotite.sequence.codon:CodonTable._to_number",
    "biotite.sequence.codon:CodonTable._to_codon",
    "biotite.sequence.codon:CodonTable.map_codon_codes",
    "biotite.sequence.codon:CodonTable.is_start_codon",
    "biotite.sequence.codon:CodonTable.load",
]
ASSUMPTIONS = [
    "alphabets have pairwise distinct symbols (the statement speaks of a bijection); bool/float symbols are not generated because 1 == True == 1.0 would collide in any dict",
    "for str/list-of-str/unicode-array input holding non-ASCII characters UnicodeEncodeError is accepted besides AlphabetError; for bytes / S1 arrays AlphabetError is demanded",
    "for Python-int lists given to LetterAlphabet.decode_multiple numpy's OverflowError (value does not fit uint8) is accepted besides AlphabetError; for AlphabetMapper an out-of-range code may raise IndexError/OverflowError and a returned value is only counted (the statement defines mapping for codes of the source alphabet)",
    "sub-sequences obtained by slicing are numpy views of their parent; only copy() independence is judged",
    "== is judged between sequences of the same class and alphabet (documented definition); comparison with str/list must be False",
    "ORF and order: the list of ORFs is compared as a sorted list (the statement fixes the set, not the order); start codons that are themselves stop codons are not generated (statement ambiguous)",
    "shipped NCBI tables: the reference is 'standard code + NCBI documented differences' embedded in the harness; tables 27-30 of the shipped codon_tables.txt additionally map CTG->A (deviation from NCBI, a data question outside the statement) - the reference follows the shipped data and counts the deviation as an observation; start codon sets are transcribed from the shipped file",
    "k-mer alphabets are limited to len(base)**k < 2**62",
]
MIN_CASES_PER_WORKER = 40
MANIFEST = {
    "technique": "differential runtime monitoring: every generated alphabet/sequence/table input is executed on the real biotite (ASan+UBSan build of codec.c, kmeralphabet.c) and compared with harness-side reference models (dict codec, radix k-mer codes, Python list/str model, IUPAC table, NCBI codes as standard+differences, per-codon lookup, naive ORF scan); complete 94x256 letter grid; process-exit monitor",
    "level_text": "Runtime monitoring: ~20 000 (quick) / ~10^6 (thorough) generated cases plus the complete 94 x 256 grid (alphabet size x byte value) are executed on the real code while independent reference models predict either the value or the acceptable exception classes; a returned value where AlphabetError is due, any disagreement with the model, a worker death or a sanitizer report is a violation.  Held-on-what-was-observed, not a proof.",
    "level_note": "Trusts the reference models (audited at start-up against brute force: itertools.product order for k-mer codes, a second ORF formulation on all DNA strings up to length 7, IUPAC sets, numpy indexing for the list model), numpy, and that codec.c/kmeralphabet.c correspond to the .pyx files (no Cython here).  Bounds: alphabets <= 300 symbols, sequences <= 300 symbols, len(base)**k < 2^62, DNA <= 300 nt.  Data in codon_tables.txt is compared with NCBI only as an observation.  Open findings are quarantined into probes.",
    "design_ref": "DESIGN.md section 6, C03",
}

_INT_DTYPES = ["int8", "int16", "int32", "int64", "uint8", "uint16", "uint32", "uint64"]
_UINT = ["uint8", "uint16", "uint32", "uint64"]

seq = None
Alphabet = LetterAlphabet = AlphabetMapper = AlphabetError = None
GeneralSequence = NucleotideSequence = ProteinSequence = CodonTable = KmerAlphabet = None


def setup(ctx):
    global seq, Alphabet, LetterAlphabet, AlphabetMapper, AlphabetError
    global GeneralSequence, NucleotideSequence, ProteinSequence, CodonTable, KmerAlphabet
    import biotite.sequence as seq_
    from biotite.sequence.align import KmerAlphabet as K
    seq = seq_
    Alphabet, LetterAlphabet = seq.Alphabet, seq.LetterAlphabet
    AlphabetMapper, AlphabetError = seq.AlphabetMapper, seq.AlphabetError
    GeneralSequence, NucleotideSequence = seq.GeneralSequence, seq.NucleotideSequence
    ProteinSequence, CodonTable = seq.ProteinSequence, seq.CodonTable
    KmerAlphabet = K


# ------------------------------------------------------------------ helpers
def _short(x):
    r = repr(x)
    return r if len(r) < 160 else r[:160] + "..."


def reject(ctx, oracle, what, fn, also=()):
    """fn must raise AlphabetError (or one of `also`, counted); a returned value is the violation."""
    ctx.oracle(oracle)
    try:
        res = fn()
    except AlphabetError as e:
        ctx.exc(e)
        return
    except also as e:
        ctx.exc(e)
        ctx.note("rejected_by_" + type(e).__name__)
        return
    ctx.fail(oracle, "%s returned %s instead of raising AlphabetError" % (what, _short(res)))


def ri(rng, lo, hi=None):
    return int(rng.integers(lo, hi))


def pick(rng, xs):
    return xs[int(rng.integers(len(xs)))]


def fitting_dtypes(values, pool=_INT_DTYPES):
    lo = min(values) if len(values) else 0
    hi = max(values) if len(values) else 0
    return [d for d in pool if np.iinfo(d).min <= lo and hi <= np.iinfo(d).max]


_STRICT_FORMS = ("bytes", "S1", "S1_strided", "list_bytes")
_LETTER_FORMS = ("str", "bytes", "list_str", "list_bytes", "tuple", "U1", "S1", "S1_strided", "object")


def as_form(chars, form):
    """chars: list of 1-character str in the latin-1 range -> the container form given to biotite."""
    s = "".join(chars)
    if form == "str":
        return s
    if form == "bytes":
        return s.encode("latin-1")
    if form == "list_str":
        return list(chars)
    if form == "list_bytes":
        return [c.encode("latin-1") for c in chars]
    if form == "tuple":
        return tuple(chars)
    if form == "U1":
        return np.array(chars, dtype="U1")
    if form == "S1":
        return np.frombuffer(s.encode("latin-1"), dtype="S1")
    if form == "S1_strided":
        return np.frombuffer("".join(c + "~" for c in chars).encode("latin-1"), dtype="S1")[::2]
    if form == "object":
        a = np.empty(len(chars), dtype=object)
        for i, c in enumerate(chars):
            a[i] = c
        return a
    raise AssertionError(form)


def also_for(form, chars):
    if form in _STRICT_FORMS:
        return ()
    return (UnicodeEncodeError,) if any(ord(c) > 127 for c in chars) else ()


def make_letter_alphabet(rng, syms):
    how = ri(rng, 4)
    if how == 0:
        return LetterAlphabet("".join(syms))
    if how == 1:      # (a bytes object itself is refused by the constructor: iterating it yields ints)
        return LetterAlphabet([s.encode("ascii") for s in syms])
    if how == 2:
        return LetterAlphabet(list(syms))
    return LetterAlphabet([s.encode("ascii") if rng.random() < 0.5 else s for s in syms])


# ------------------------------------------------------------------ letter grid
def case_letter_grid(rng, ctx):
    n = ctx.index % 94 + 1
    syms = [R.PRINTABLE[i] for i in rng.permutation(94)[:n]]
    alph = make_letter_alphabet(rng, syms)
    ctx.log("LetterAlphabet", "".join(syms))
    ctx.mark_nontrivial()
    ctx.state(("grid", n))
    code_of = {ord(s): i for i, s in enumerate(syms)}
    if len(alph) != n or tuple(alph.get_symbols()) != tuple(syms):
        ctx.fail("letter_grid", "alphabet reports %r" % (alph.get_symbols(),))
    for b in range(256):
        exp = code_of.get(b)
        by = bytes([b])
        ch = chr(b)
        s1 = np.frombuffer(by, dtype="S1") if b & 1 else np.array([by], dtype="S1")
        forms = (("bytes", by, ()), ("S1", s1, ()),
                 ("str", ch, (UnicodeEncodeError,) if b > 127 else ()),
                 ("list", [ch], (UnicodeEncodeError,) if b > 127 else ()))
        for name, obj, also in forms:
            ctx.op("grid_encode_" + name)
            if exp is None:
                reject(ctx, "letter_grid", "encode_multiple(%s byte %d), alphabet size %d" % (name, b, n),
                       lambda: alph.encode_multiple(obj), also)
            else:
                code = alph.encode_multiple(obj)
                ctx.check(code.dtype == np.uint8 and code.tolist() == [exp], "letter_grid",
                          "encode_multiple(%s byte %d) = %s, expected [%d]" % (name, b, _short(code), exp))
        for name, obj in (("chr", ch), ("byte", by)):
            ctx.op("grid_encode_scalar")
            if exp is None:
                reject(ctx, "letter_grid", "encode(%r)" % (obj,), lambda: alph.encode(obj))
            else:
                got = alph.encode(obj)
                ctx.check(got == exp, "letter_grid", "encode(%r) = %r, expected %d" % (obj, got, exp))
        ctx.check((ch in alph) == (exp is not None), "letter_grid", "%r in alphabet is %s" % (ch, exp is None))
        # decode side: code value b
        arr = np.array([b], dtype=np.uint8)
        ctx.op("grid_decode", 4)
        if b < n:
            got = alph.decode_multiple(arr)
            ctx.check(got.tolist() == [syms[b]], "letter_grid", "decode_multiple([%d]) = %s" % (b, _short(got)))
            got = alph.decode_multiple(arr, as_bytes=True)
            ctx.check(got.tolist() == [syms[b].encode()], "letter_grid", "decode_multiple([%d], as_bytes) = %s" % (b, _short(got)))
            ctx.check(alph.decode(b) == syms[b] and alph.decode(np.uint8(b)) == syms[b], "letter_grid", "decode(%d)" % b)
        else:
            reject(ctx, "letter_grid", "decode_multiple(uint8 [%d]), alphabet size %d" % (b, n), lambda: alph.decode_multiple(arr))
            reject(ctx, "letter_grid", "decode_multiple([%d], as_bytes)" % b, lambda: alph.decode_multiple(arr, as_bytes=True))
            reject(ctx, "letter_grid", "decode(%d)" % b, lambda: alph.decode(b))
            reject(ctx, "letter_grid", "decode(uint8 %d)" % b, lambda: alph.decode(np.uint8(b)))
    # whole alphabet in one call, every order-preserving form
    perm = [syms[i] for i in rng.permutation(n)]
    for form in ("bytes", "str", "S1", "U1"):
        code = alph.encode_multiple(as_form(perm, form))
        ctx.check(code.tolist() == [code_of[ord(c)] for c in perm], "letter_grid", "whole-alphabet encode (%s)" % form)
        ctx.check(alph.decode_multiple(code).tolist() == perm, "letter_grid", "whole-alphabet decode")


# ------------------------------------------------------------------ letter alphabets
def gen_letter_alphabet(rng, ctx, nmax=94):
    sizes = [1, 2, 3, 4, 5, 10, 15, 24, 26, 52, 62, 93, 94]
    n = pick(rng, sizes) if rng.random() < 0.5 else ri(rng, 1, 95)
    n = min(n, nmax)
    syms = [R.PRINTABLE[i] for i in rng.permutation(94)[:n]]
    ctx.log("LetterAlphabet", "".join(syms))
    return make_letter_alphabet(rng, syms), syms


def rand_len(rng, hi=200):
    r = rng.random()
    if r < 0.08:
        return 0
    if r < 0.16:
        return 1
    if r < 0.7 or hi <= 25:
        return ri(rng, 2, min(25, hi + 1))
    return ri(rng, 25, hi + 1)


def code_edge_values(rng, n):
    k = ri(rng, n)
    return [-2**31, -n, -1, 0, n - 1, n, 255, 256, 256 + k, 2**16 + k, k - 256, 2**32 + k]


def case_letter(rng, ctx):
    alph, syms = gen_letter_alphabet(rng, ctx)
    ref = R.RefCodec(syms)
    n = len(syms)
    # --- round trip
    L = rand_len(rng)
    chars = [syms[i] for i in rng.integers(0, n, size=L)]
    form = pick(rng, _LETTER_FORMS)
    ctx.log("roundtrip", form, "".join(chars))
    ctx.op("letter_encode_" + form)
    code = alph.encode_multiple(as_form(chars, form))
    exp = ref.encode(chars)
    ctx.check(isinstance(code, np.ndarray) and code.dtype == np.uint8 and code.tolist() == exp, "roundtrip_letter",
              "encode_multiple(%s) = %s, expected %s" % (form, _short(code), _short(exp)))
    back = alph.decode_multiple(code)
    ctx.check(back.dtype.kind == "U" and back.tolist() == chars, "roundtrip_letter", "decode(encode(s)) = %s" % _short(back))
    backb = alph.decode_multiple(code.tolist() if rng.random() < 0.3 else code, as_bytes=True)
    ctx.check(backb.tolist() == [c.encode() for c in chars], "roundtrip_letter", "decode(encode(s), as_bytes) = %s" % _short(backb))
    for i in rng.integers(0, L, size=min(L, 3)):
        c = chars[int(i)]
        ctx.check(alph.encode(c) == exp[int(i)] and alph.decode(exp[int(i)]) == c and alph.encode(c.encode()) == exp[int(i)],
                  "roundtrip_letter", "scalar encode/decode of %r" % c)
    if len(set(chars)) >= 2:
        ctx.mark_nontrivial()
    ctx.state(("letter", n, L, form))
    # --- out-of-alphabet symbol injected
    outsiders = [chr(b) for b in range(256) if chr(b) not in ref.index]
    bad = pick(rng, outsiders)
    if rng.random() < 0.5:
        cand = [c for c in outsiders if 32 <= ord(c) < 127] or outsiders
        bad = pick(rng, cand)
    chars2 = list(chars)
    pos = ri(rng, len(chars2) + 1)
    chars2.insert(pos, bad)
    form = pick(rng, _LETTER_FORMS)
    ctx.log("outsider", form, ord(bad), pos)
    ctx.op("letter_outsider_" + form)
    obj = as_form(chars2, form)
    reject(ctx, "symbol_out_of_alphabet_rejected",
           "encode_multiple(%s) with byte %d at %d, alphabet %r" % (form, ord(bad), pos, "".join(syms)),
           lambda: alph.encode_multiple(obj), also_for(form, chars2))
    reject(ctx, "symbol_out_of_alphabet_rejected", "encode(%r)" % bad, lambda: alph.encode(bad))
    ctx.mark_nontrivial()
    # --- multi-character symbols are symbols outside a letter alphabet
    if rng.random() < 0.25 and ctx.allowed("multichar_symbol_truncated"):
        multi = pick(rng, syms) + pick(rng, syms + ["x"]) + ("" if rng.random() < 0.5 else pick(rng, syms))
        items = list(chars[:5])
        items.insert(ri(rng, len(items) + 1), multi)
        mform = pick(rng, ["list", "U", "tuple", "object"])
        ctx.log("multichar", mform, items)
        ctx.op("letter_multichar_" + mform)
        if mform == "list":
            mobj = items
        elif mform == "tuple":
            mobj = tuple(items)
        elif mform == "U":
            mobj = np.array(items)
        else:
            mobj = np.empty(len(items), dtype=object)
            mobj[:] = items
        reject(ctx, "symbol_out_of_alphabet_rejected", "encode_multiple(%s %r)" % (mform, items),
               lambda: alph.encode_multiple(mobj))
    # --- code arrays with edge values
    wide_ok = ctx.allowed("wide_code_wraps_uint8")
    edges = code_edge_values(rng, n)
    for _ in range(2):
        vals = [int(v) for v in rng.integers(0, n, size=ri(rng, 0, 6))]
        nbad = ri(rng, 0, 3)
        for _ in range(nbad):
            vals.insert(ri(rng, len(vals) + 1), pick(rng, edges))
        if not wide_ok:
            vals = [v for v in vals if 0 <= v <= 255]
        as_list = rng.random() < 0.2
        dts = fitting_dtypes(vals)
        dt = pick(rng, dts)
        ctx.log("codes", "list" if as_list else dt, vals)
        ctx.op("letter_decode_" + ("list" if as_list else dt))
        obj = list(vals) if as_list else np.array(vals, dtype=dt)
        if not as_list and rng.random() < 0.25:
            # the same codes as a list / tuple of NumPy scalars (what iterating over a code array yields)
            ctx.op("letter_decode_scalar_seq")
            obj = (list if rng.random() < 0.5 else tuple)(np.dtype(dt).type(v) for v in vals)
        if all(0 <= v < n for v in vals):
            got = alph.decode_multiple(obj)
            ctx.check(got.tolist() == [syms[v] for v in vals], "roundtrip_letter",
                      "decode_multiple(%s %s) = %s" % (dt, vals, _short(got)))
        else:
            ctx.mark_nontrivial()
            also = (OverflowError,) if as_list and any(v < 0 or v > 255 for v in vals) else ()
            reject(ctx, "code_out_of_range_rejected",
                   "decode_multiple(%s %s), alphabet size %d" % ("list" if as_list else dt, vals, n),
                   lambda: alph.decode_multiple(obj), also)
    v = pick(rng, edges)
    dts = fitting_dtypes([v])
    sc = np.dtype(pick(rng, dts)).type(v) if rng.random() < 0.5 else v
    ctx.log("decode_scalar", type(sc).__name__, v)
    if 0 <= v < n:
        ctx.check(alph.decode(sc) == syms[v], "roundtrip_letter", "decode(%r)" % (sc,))
    else:
        reject(ctx, "code_out_of_range_rejected", "decode(%r), alphabet size %d" % (sc, n), lambda: alph.decode(sc))
    # --- misc API
    if rng.random() < 0.2:
        ctx.op("letter_api")
        ctx.check(len(alph) == n and tuple(alph.get_symbols()) == tuple(syms) and list(alph) == syms
                  and alph.is_letter_alphabet() and alph == LetterAlphabet(syms) and alph == Alphabet(syms)
                  and alph.extends(LetterAlphabet(syms[:max(1, n // 2)])), "roundtrip_letter", "alphabet API disagrees")
        if n >= 2:
            ctx.check(not (alph == LetterAlphabet(syms[::-1])) and not LetterAlphabet(syms[:-1]).extends(alph),
                      "roundtrip_letter", "== / extends wrong for permuted or shorter alphabet")


# ------------------------------------------------------------------ generic alphabets
_STR_POOL = ["", "a", "b", "A", "ab", "foo", " ", ",", "é", "€", "\n", "0", "1", "N", "*"]


def rand_symbol(rng, depth=0):
    k = ri(rng, 6 if depth < 2 else 5)
    if k == 0:
        return ri(rng, -5, 400)
    if k == 1:
        return ri(rng, -3, 4) * 2 ** ri(rng, 31, 80) + ri(rng, 5)
    if k == 2:
        return pick(rng, _STR_POOL) + ("" if rng.random() < 0.5 else str(ri(rng, 100)))
    if k == 3:
        return bytes(rng.integers(0, 256, size=ri(rng, 3)).astype(np.uint8))
    if k == 4:
        return None if rng.random() < 0.2 else frozenset(int(x) for x in rng.integers(0, 6, size=ri(rng, 4)))
    return tuple(rand_symbol(rng, depth + 1) for _ in range(ri(rng, 4)))


def gen_generic_symbols(rng, n):
    if n > 40:
        kinds = rng.integers(0, 3, size=n)
        off = ri(rng, -200, 200)
        return [(i + off) if kk == 0 else ("s%d" % i) if kk == 1 else (i, "t") for i, kk in enumerate(kinds)]
    out = {}
    while len(out) < n:
        out[rand_symbol(rng)] = None
    return list(out)


def gen_outsider(rng, ref):
    for _ in range(50):
        base = pick(rng, ref.symbols)
        r = rng.random()
        if r < 0.3 and isinstance(base, str):
            s = base + "x"
        elif r < 0.3 and isinstance(base, int):
            s = base + 10**6
        elif r < 0.5 and isinstance(base, tuple):
            s = base + (0,)
        else:
            s = rand_symbol(rng)
        if not ref.has(s):
            return s
    return ("outsider", ri(rng, 10**9))


def gen_generic_alphabet(rng, ctx, sizes=None):
    sizes = sizes or [1, 2, 3, 4, 5, 8, 17, 40, 64, 255, 256, 257, 300]
    p = np.array([3, 3, 3, 3, 3, 3, 2, 1, 1, 1, 1, 1, 1][:len(sizes)], dtype=float)
    n = int(rng.choice(sizes, p=p / p.sum()))
    syms = gen_generic_symbols(rng, n)
    ctx.log("Alphabet", syms if n <= 40 else ("structured", n, syms[:3]))
    alph = Alphabet(syms if rng.random() < 0.7 else tuple(syms))
    return alph, syms


def seq_dtype(n):
    return np.uint8 if n <= 256 else np.uint16 if n <= 65536 else np.uint32


def case_generic(rng, ctx):
    alph, syms = gen_generic_alphabet(rng, ctx)
    ref = R.RefCodec(syms)
    n = len(syms)
    L = rand_len(rng, 120)
    idx = [int(i) for i in rng.integers(0, n, size=L)]
    items = [syms[i] for i in idx]
    ctx.log("roundtrip", idx)
    ctx.op("generic_roundtrip")
    dt = pick(rng, [None, np.int64, np.uint16, np.int32, np.uint64])
    code = alph.encode_multiple(items if rng.random() < 0.7 else tuple(items)) if dt is None else alph.encode_multiple(items, dt)
    ctx.check(isinstance(code, np.ndarray) and code.dtype == (np.int64 if dt is None else dt) and code.tolist() == idx,
              "roundtrip_generic", "encode_multiple = %s, expected %s" % (_short(code), _short(idx)))
    back = alph.decode_multiple(code if rng.random() < 0.7 else code.tolist())
    ctx.check(back == items, "roundtrip_generic", "decode(encode(s)) = %s" % _short(back))
    for i in idx[:3]:
        ctx.check(alph.encode(syms[i]) == i and alph.decode(i) == syms[i] and alph.decode(np.uint16(i)) == syms[i],
                  "roundtrip_generic", "scalar encode/decode of code %d" % i)
    if len(set(idx)) >= 2:
        ctx.mark_nontrivial()
    ctx.state(("generic", n, L))
    # through a sequence object
    if rng.random() < 0.4:
        ctx.op("generic_sequence")
        s = GeneralSequence(alph, items)
        ctx.check(s.code.dtype == seq_dtype(n) and s.code.tolist() == idx and list(s.symbols) == items
                  and str(s) == ", ".join(str(e) for e in items) and len(s) == L,
                  "roundtrip_generic", "GeneralSequence disagrees with its symbols")
    # outsiders
    bad = gen_outsider(rng, ref)
    items2 = list(items[:10])
    pos = ri(rng, len(items2) + 1)
    items2.insert(pos, bad)
    ctx.log("outsider", bad, pos)
    ctx.op("generic_outsider")
    reject(ctx, "symbol_out_of_alphabet_rejected", "encode(%r)" % (bad,), lambda: alph.encode(bad))
    reject(ctx, "symbol_out_of_alphabet_rejected", "encode_multiple with %r at %d" % (bad, pos), lambda: alph.encode_multiple(items2))
    reject(ctx, "symbol_out_of_alphabet_rejected", "GeneralSequence with %r at %d" % (bad, pos), lambda: GeneralSequence(alph, items2))
    ctx.check((bad in alph) is False and (n == 0 or syms[0] in alph), "roundtrip_generic", "membership wrong")
    ctx.mark_nontrivial()
    # out-of-range codes
    edges = [-2**31, -n, -1, n, n + 1, 255, 256, 256 + ri(rng, n), 2**16 + ri(rng, n), 2**63 - 1]
    edges = [v for v in edges if not 0 <= v < n]
    v = pick(rng, edges)
    dts = fitting_dtypes([v])
    dt = pick(rng, dts)
    vals = idx[:4]
    vals.insert(ri(rng, len(vals) + 1), v)
    ctx.log("bad_code", dt, vals)
    ctx.op("generic_bad_code")
    reject(ctx, "code_out_of_range_rejected", "decode(%d), size %d" % (v, n), lambda: alph.decode(v))
    reject(ctx, "code_out_of_range_rejected", "decode(%s %d)" % (dt, v), lambda: alph.decode(np.dtype(dt).type(v)))
    reject(ctx, "code_out_of_range_rejected", "decode_multiple(list %s)" % vals, lambda: alph.decode_multiple(vals))
    adts = fitting_dtypes(vals)
    adt = pick(rng, adts)
    reject(ctx, "code_out_of_range_rejected", "decode_multiple(%s %s)" % (adt, vals),
           lambda: alph.decode_multiple(np.array(vals, dtype=adt)))
    if rng.random() < 0.15:
        ctx.op("generic_api")
        ctx.check(len(alph) == n and tuple(alph.get_symbols()) == tuple(syms) and list(alph) == syms
                  and alph == Alphabet(syms) and alph.extends(Alphabet(syms[:max(1, n // 2)]))
                  and hash(alph) == hash(Alphabet(syms)), "roundtrip_generic", "alphabet API disagrees")


# ------------------------------------------------------------------ AlphabetMapper
def case_mapper(rng, ctx):
    letter = rng.random() < 0.5
    if letter:
        ns = pick(rng, [1, 2, 4, 10, 24, 60]) if rng.random() < 0.6 else ri(rng, 1, 80)
        perm = [R.PRINTABLE[i] for i in rng.permutation(94)]
        src_syms, pool = perm[:ns], perm[ns:]
    else:
        ns = pick(rng, [1, 2, 3, 5, 9, 20]) if rng.random() < 0.88 else pick(rng, [200, 256, 257, 300])
        allsyms = gen_generic_symbols(rng, ns + min(ns, 12) + 2)
        src_syms, pool = allsyms[:ns], allsyms[ns:]
    mode = pick(rng, ["superset_permuted", "superset_permuted", "permuted", "prefix_extends", "identical", "missing"])
    if mode == "missing" and ns < 1:
        mode = "permuted"
    nextra = ri(rng, 0, min(len(pool), 12) + 1)
    extras = pool[:nextra]
    if mode == "superset_permuted":
        tgt_syms = src_syms + extras
        tgt_syms = [tgt_syms[i] for i in rng.permutation(len(tgt_syms))]
    elif mode == "permuted":
        tgt_syms = [src_syms[i] for i in rng.permutation(ns)]
    elif mode == "prefix_extends":
        tgt_syms = src_syms + extras
    elif mode == "identical":
        tgt_syms = list(src_syms)
    else:
        drop = ri(rng, ns)
        tgt_syms = [s for i, s in enumerate(src_syms) if i != drop] + (extras or pool[:1])
        tgt_syms = [tgt_syms[i] for i in rng.permutation(len(tgt_syms))]
    ctx.log("mapper", "letter" if letter else "generic", mode, ns, len(tgt_syms),
            ("".join(src_syms), "".join(tgt_syms)) if letter else (src_syms[:20], tgt_syms[:30]))
    mk_src = LetterAlphabet if letter and rng.random() < 0.85 else Alphabet
    mk_tgt = LetterAlphabet if letter and rng.random() < 0.85 else Alphabet
    src, tgt = mk_src(src_syms), mk_tgt(tgt_syms)
    ctx.op("mapper_" + mode)
    if mode == "missing":
        reject(ctx, "symbol_out_of_alphabet_rejected", "AlphabetMapper onto a target lacking a source symbol",
               lambda: AlphabetMapper(src, tgt))
        ctx.mark_nontrivial()
        return
    mapper = AlphabetMapper(src, tgt)
    tindex = {s: i for i, s in enumerate(tgt_syms)}
    exp = [tindex[s] for s in src_syms]
    ctx.state(("mapper", letter, mode, ns, len(tgt_syms)))
    # scalars
    codes = range(ns) if ns <= 40 else [int(c) for c in rng.integers(0, ns, size=40)]
    for c in codes:
        sc = c if rng.random() < 0.5 else np.dtype(pick(rng, fitting_dtypes([c]))).type(c)
        got = mapper[sc]
        ctx.check(int(got) == exp[c], "mapper_preserves_symbol",
                  "mapper[%r] = %r: %r -> %r" % (sc, got, src_syms[c], tgt_syms[int(got)] if 0 <= int(got) < len(tgt_syms) else "?"))
    # arrays
    for _ in range(2):
        L = rand_len(rng, 100)
        vals = [int(c) for c in rng.integers(0, ns, size=L)]
        kind = pick(rng, ["uint", "uint", "int", "list", "strided"])
        if kind == "list":
            obj, desc = list(vals), "list"
        else:
            dt = pick(rng, fitting_dtypes(vals, _UINT if kind != "int" else ["int8", "int16", "int32", "int64"]))
            desc = dt
            if kind == "strided":
                big = np.zeros(2 * L, dtype=dt)
                big[::2] = vals
                obj = big[::2]
                desc += "_strided"
            else:
                obj = np.array(vals, dtype=dt)
        ctx.log("map", desc, vals)
        ctx.op("mapper_array_" + desc)
        got = mapper[obj]
        ctx.check(len(got) == L and [int(x) for x in got] == [exp[c] for c in vals], "mapper_preserves_symbol",
                  "mapper[%s %s] = %s, expected %s" % (desc, _short(vals), _short(got), _short([exp[c] for c in vals])))
        if len(set(vals)) >= 2 and exp != list(range(ns)):
            ctx.mark_nontrivial()
    # through sequence objects (documented usage)
    if letter and rng.random() < 0.4:
        chars = [src_syms[i] for i in rng.integers(0, ns, size=ri(rng, 0, 30))]
        a = GeneralSequence(src, "".join(chars))
        b = GeneralSequence(tgt)
        b.code = mapper[a.code]
        ctx.op("mapper_sequence")
        ctx.check([str(x) for x in b.symbols] == chars == [str(x) for x in a.symbols], "mapper_preserves_symbol",
                  "sequence mapped to %r, was %r" % ("".join(str(x) for x in b.symbols), "".join(chars)))
    # codes outside the source alphabet: memory safety is judged (ASan / exit status), the value is only counted
    bad = pick(rng, [ns, ns + 1, ns + 250, -1, -ns - 1, 2**31, 2**63 - 1])
    kind = pick(rng, ["scalar", "array", "list"])
    ctx.log("map_bad", kind, bad)
    ctx.op("mapper_out_of_range_" + kind)
    try:
        if kind == "scalar":
            r = mapper[bad]
        elif kind == "list":
            r = mapper[[0, bad]]
        else:
            r = mapper[np.array([0, bad], dtype=pick(rng, fitting_dtypes([0, bad])))]
    except (IndexError, AlphabetError, OverflowError) as e:
        ctx.exc(e)
    else:
        ctx.note("mapper_out_of_range_code_returned_value" + ("_identity" if exp == list(range(ns)) and len(tgt_syms) >= ns and mode in ("prefix_extends", "identical") else ""))


# ------------------------------------------------------------------ k-mer alphabets
def gen_spacing(rng, k):
    """-> (positions sorted, spacing argument, description)"""
    if rng.random() < 0.45:
        return list(range(k)), None, "contiguous"
    span = k + ri(rng, 0, 5)
    inner = sorted(int(x) for x in rng.permutation(span - 1)[:k - 1]) if span > 1 else []
    pos = sorted(set(inner) | {span - 1})
    while len(pos) < k:      # k-1 distinct values below span-1 plus span-1 itself
        pos = sorted(set(pos) | {ri(rng, span)})
    form = pick(rng, ["str", "list", "array", "tuple"])
    if form == "str":
        filler = pick(rng, ["0", "*", "-"])
        s = "".join("1" if i in pos else filler for i in range(span)) + (filler * ri(rng, 0, 3) if rng.random() < 0.2 else "")
        return pos, s, "str:" + s
    shuffled = [pos[i] for i in rng.permutation(k)]
    if form == "list":
        return pos, shuffled, "list:%s" % shuffled
    if form == "tuple":
        return pos, tuple(shuffled), "tuple:%s" % shuffled
    dt = pick(rng, ["int8", "int32", "int64", "uint8", "uint64"])
    return pos, np.array(shuffled, dtype=dt), "array(%s):%s" % (dt, shuffled)


def case_kmer(rng, ctx):
    big = rng.random() < 0.06          # codes above 2^53
    if rng.random() < 0.7 or big:
        n = pick(rng, [1, 2, 4, 15, 24, 94]) if rng.random() < 0.6 else ri(rng, 1, 95)
        if big:
            n = pick(rng, [94, 90, 64, 50])
        syms = [R.PRINTABLE[i] for i in rng.permutation(94)[:n]]
        base = LetterAlphabet(syms)
        letter = True
    else:
        n = ri(rng, 1, 13)
        syms = gen_generic_symbols(rng, n)
        base = Alphabet(syms)
        letter = False
    if big:
        ks = [k for k in range(2, 12) if 2**53 < n**k < 2**62]
        k = pick(rng, ks)
    else:
        ks = [k for k in range(2, 7) if n**k <= 2**40]
        k = pick(rng, ks)
    pos, spacing, sdesc = gen_spacing(rng, k)
    ctx.log("KmerAlphabet", "letter" if letter else "generic", "".join(syms) if letter else syms, k, sdesc)
    ctx.op("kmer_alphabet_" + sdesc.split(":")[0].split("(")[0])
    ka = KmerAlphabet(base, k) if spacing is None and rng.random() < 0.5 else KmerAlphabet(base, k, spacing)
    size = n**k
    sp = ka.spacing
    ctx.check(len(ka) == size and ka.k == k and ka.base_alphabet is base
              and ((sp is None) if spacing is None else (sp is not None and sp.tolist() == pos)),
              "kmer_code_vs_radix", "len/k/spacing: %r %r %r" % (len(ka), ka.k, sp))
    ctx.state(("kmer", n, k, tuple(pos)))
    span = pos[-1] + 1

    def sym_of(codes):
        return "".join(syms[c] for c in codes) if letter else [syms[c] for c in codes]

    # --- encode / decode of k-mer symbols, fuse / split
    m = ri(rng, 1, 6)
    tuples = [[int(c) for c in rng.integers(0, n, size=k)] for _ in range(m)]
    if rng.random() < 0.3:
        tuples[0] = [n - 1] * k
    ctx.log("kmers", tuples)
    for t in tuples:
        expc = R.kmer_code(t, n)
        ctx.op("kmer_encode")
        got = ka.encode(sym_of(t) if rng.random() < 0.7 or not letter else list(sym_of(t)))
        ctx.check(int(got) == expc, "kmer_code_vs_radix", "encode(%r) = %r, expected %d" % (sym_of(t), got, expc))
        dec = ka.decode(expc)
        ctx.check(list(dec) == [syms[c] for c in t], "kmer_code_vs_radix", "decode(%d) = %s" % (expc, _short(dec)))
        ctx.check(sym_of(t) in ka, "kmer_code_vs_radix", "%r not in k-mer alphabet" % (sym_of(t),))
        sp_ = ka.split(expc if rng.random() < 0.5 else np.int64(expc))
        ctx.check(sp_.shape == (k,) and [int(x) for x in sp_] == t, "kmer_fuse_split", "split(%d) = %s" % (expc, _short(sp_)))
        fdt = pick(rng, fitting_dtypes([n - 1], ["uint8", "uint16", "uint32", "int16", "int32", "int64"]))
        fu = ka.fuse(np.array(t, dtype=fdt))
        ctx.check(np.shape(fu) == () and int(fu) == expc and fu == expc, "kmer_fuse_split",
                  "fuse(%s %s) = %r, expected %d" % (fdt, t, fu, expc))
        if expc < 2**53 or ctx.allowed("fuse_split_roundtrip_above_2p53"):
            ctx.op("kmer_fuse_of_split")
            fs = ka.fuse(sp_)
            ctx.check(int(fs) == expc and fs == expc, "kmer_fuse_split",
                      "fuse(split(%d)) = %r (%s)" % (expc, fs, getattr(fs, "dtype", "?")))
    codes2d = np.array(tuples, dtype=pick(rng, fitting_dtypes([n - 1], ["uint8", "uint16", "uint32", "int16", "int32", "int64"])))
    expv = [R.kmer_code(t, n) for t in tuples]
    fu = ka.fuse(codes2d)
    ctx.check(fu.shape == (m,) and [int(x) for x in fu] == expv, "kmer_fuse_split", "fuse(2-D) = %s, expected %s" % (_short(fu), expv))
    sdt = pick(rng, fitting_dtypes(expv, ["int64", "uint64", "int64", "uint32", "int32"]))
    sp2 = ka.split(np.array(expv, dtype=sdt))
    ctx.check(sp2.shape == (m, k) and sp2.astype(object).tolist() == tuples, "kmer_fuse_split", "split(%s array) = %s" % (sdt, _short(sp2)))
    em = ka.encode_multiple([sym_of(t) for t in tuples])
    ctx.check([int(x) for x in em] == expv, "kmer_code_vs_radix", "encode_multiple = %s" % _short(em))
    dm = ka.decode_multiple(np.array(expv, dtype=np.int64))
    ctx.check([list(x) for x in dm] == [[syms[c] for c in t] for t in tuples], "kmer_code_vs_radix", "decode_multiple = %s" % _short(dm))
    if m >= 2 and n >= 2:
        ctx.mark_nontrivial()
    if size <= 300 and rng.random() < 0.3:
        ctx.op("kmer_get_symbols")
        allk = [list(t) for t in itertools.product(range(n), repeat=k)]
        got = ka.get_symbols()
        ctx.check([list(g) for g in got] == [[syms[c] for c in t] for t in allk] and
                  [list(g) for g in ka] == [list(g) for g in got], "kmer_code_vs_radix", "get_symbols() differs from the product order")
    # --- create_kmers
    L = ri(rng, span, span + 60) if rng.random() < 0.9 else span
    dmax = n - 1
    dt = pick(rng, fitting_dtypes([dmax], _UINT))
    codes = rng.integers(0, n, size=L).astype(dt)
    strided = rng.random() < 0.2
    ctx.log("create_kmers", dt, "strided" if strided else "contig", codes.tolist())
    ctx.op("kmer_create_" + ("spaced" if spacing is not None else "contiguous"))
    if strided:
        bigarr = np.full(2 * L, dmax, dtype=dt)
        bigarr[::2] = codes
        arg = bigarr[::2]
    else:
        arg = codes
    got = ka.create_kmers(arg)
    expk = R.naive_kmers([int(c) for c in codes], n, pos)
    ctx.check(got.dtype == np.int64 and got.tolist() == expk and len(got) == ka.kmer_array_length(L) == L - span + 1,
              "kmer_create_vs_naive", "create_kmers = %s, expected %s" % (_short(got.tolist()), _short(expk)))
    if L > span and n >= 2:
        ctx.mark_nontrivial()
    # --- rejected inputs
    what = pick(rng, ["fuse_gt", "fuse_eq", "fuse_neg", "fuse_len", "split_hi", "split_neg", "create_bad", "create_short",
                      "encode_bad", "create_signed"])
    ctx.op("kmer_reject_" + what)
    t = list(tuples[0])
    j = ri(rng, k)
    if what in ("fuse_gt", "fuse_eq", "fuse_neg"):
        if what == "fuse_eq" and not ctx.allowed("fuse_code_equals_len"):
            what = "fuse_gt"
        if what == "fuse_neg" and not ctx.allowed("fuse_negative_code"):
            what = "fuse_gt"
        t[j] = {"fuse_gt": n + ri(rng, 1, 200), "fuse_eq": n, "fuse_neg": -ri(rng, 1, n + 2)}[what]
        fdt = pick(rng, fitting_dtypes(t, ["uint8", "uint16", "int16", "int32", "int64"] if what != "fuse_neg" else ["int16", "int32", "int64"]))
        arr = np.array([t] if rng.random() < 0.3 else t, dtype=fdt)
        ctx.log(what, fdt, arr.tolist())
        ctx.mark_nontrivial()
        reject(ctx, "code_out_of_range_rejected", "fuse(%s %s), base size %d" % (fdt, arr.tolist(), n), lambda: ka.fuse(arr))
    elif what == "fuse_len":
        arr = np.array(t + [0] if rng.random() < 0.5 else t[:-1], dtype=np.int64)
        ctx.log(what, arr.tolist())
        reject(ctx, "symbol_out_of_alphabet_rejected", "fuse of %d codes for k=%d" % (len(arr), k), lambda: ka.fuse(arr))
    elif what in ("split_hi", "split_neg"):
        v = size + ri(rng, 0, 3) if what == "split_hi" else -ri(rng, 1, 4)
        arr = v if rng.random() < 0.5 else np.array([0, v], dtype=np.int64)
        ctx.log(what, arr)
        ctx.mark_nontrivial()
        reject(ctx, "code_out_of_range_rejected", "split(%s), alphabet size %d" % (_short(arr), size), lambda: ka.split(arr))
        reject(ctx, "code_out_of_range_rejected", "decode(%d), alphabet size %d" % (v, size), lambda: ka.decode(v))
    elif what == "create_bad":
        bad = codes.astype(np.uint64 if rng.random() < 0.5 else pick(rng, fitting_dtypes([n + 3], _UINT)))
        v = pick(rng, [n, n + 1, n + 3, int(np.iinfo(bad.dtype).max)])
        p = ri(rng, L - span + 1) + pick(rng, pos)      # an informative position of at least one window
        bad[p] = v
        ctx.log(what, str(bad.dtype), p, v)
        ctx.mark_nontrivial()
        reject(ctx, "code_out_of_range_rejected", "create_kmers with code %d at %d (base size %d)" % (v, p, n),
               lambda: ka.create_kmers(bad))
    elif what == "create_short":
        short = codes[:ri(rng, 0, span)]
        ctx.log(what, len(short))
        ctx.oracle("kmer_short_sequence_rejected")
        try:
            r = ka.create_kmers(short)
        except ValueError as e:
            ctx.exc(e)
        else:
            ctx.fail("kmer_short_sequence_rejected", "create_kmers on %d codes (span %d) returned %s" % (len(short), span, _short(r)))
    elif what == "encode_bad":
        if letter:
            outs = [c for c in R.PRINTABLE if c not in syms] or ["\x7f"]
            s = list(sym_of(t))
            s[j] = pick(rng, outs)
            s = "".join(s)
        else:
            s = sym_of(t)
            s[j] = ("outsider", 1)
        ctx.log(what, s)
        reject(ctx, "symbol_out_of_alphabet_rejected", "encode(%r)" % (s,), lambda: ka.encode(s))
        ctx.check((s in ka) is False, "kmer_code_vs_radix", "%r reported as member" % (s,))
    else:
        ctx.log(what)
        try:      # documented: unsigned dtypes only -> TypeError is a decline, a result must still be right
            r = ka.create_kmers(codes.astype(np.int64))
        except TypeError as e:
            ctx.exc(e)
        else:
            ctx.check(r.tolist() == expk, "kmer_create_vs_naive", "create_kmers(int64) = %s" % _short(r))


# ------------------------------------------------------------------ sequences vs list model
class SeqModel:
    """kind: general_generic | general_letter | nuc | protein; alph = list of symbols; syms = list."""

    def __init__(self, kind, alph, syms, alph_obj=None):
        self.kind, self.alph, self.syms, self.alph_obj = kind, list(alph), list(syms), alph_obj

    @property
    def letter(self):
        return self.kind != "general_generic"

    def clone(self, syms=None):
        return SeqModel(self.kind, self.alph, self.syms if syms is None else syms, self.alph_obj)

    def text(self, syms=None):
        syms = self.syms if syms is None else syms
        return "".join(syms) if self.letter else ", ".join(str(e) for e in syms)


def mixed_case(rng, s):
    return "".join(c.lower() if rng.random() < 0.3 else c for c in s)


_AA3 = {"A": "ALA", "C": "CYS", "D": "ASP", "E": "GLU", "F": "PHE", "G": "GLY", "H": "HIS", "I": "ILE", "K": "LYS",
        "L": "LEU", "M": "MET", "N": "ASN", "P": "PRO", "Q": "GLN", "R": "ARG", "S": "SER", "T": "THR", "V": "VAL",
        "W": "TRP", "Y": "TYR", "B": "ASX", "Z": "GLX", "X": "UNK"}


def make_seq(rng, ctx, m, log=True):
    """Real sequence object holding m.syms, built through a randomly chosen constructor form."""
    syms = m.syms
    if m.kind == "general_generic":
        form = pick(rng, ["list", "tuple"])
        obj = GeneralSequence(m.alph_obj, list(syms) if form == "list" else tuple(syms))
    elif m.kind == "general_letter":
        form = pick(rng, ["str", "list_str", "bytes", "U1", "S1", "tuple"])
        obj = GeneralSequence(m.alph_obj, as_form(syms, form))
    elif m.kind == "nuc":
        amb = len(m.alph) > 4
        need_amb = any(c not in "ACGT" for c in syms)
        form = pick(rng, ["str", "list", "U1"])
        s = mixed_case(rng, "".join(syms))
        arg = s if form == "str" else list(s) if form == "list" else np.array(list(s), dtype="U1")
        flag = amb if (rng.random() < 0.5 or amb != need_amb) else None
        form += "/ambiguous=%r" % flag
        obj = NucleotideSequence(arg, ambiguous=flag) if flag is not None else NucleotideSequence(arg)
    else:
        form = pick(rng, ["str", "list", "list3"])
        if form == "str":
            obj = ProteinSequence(mixed_case(rng, "".join(syms)))
        elif form == "list":
            obj = ProteinSequence(list(mixed_case(rng, "".join(syms))))
        else:
            obj = ProteinSequence([mixed_case(rng, _AA3[c]) if c in _AA3 and rng.random() < 0.5 else c for c in syms])
    if log:
        ctx.log("construct", m.kind, form, "".join(syms) if m.letter else syms)
    ctx.op("seq_construct_" + m.kind)
    return obj


def gen_seq_model(rng, ctx):
    kind = pick(rng, ["general_generic", "general_letter", "nuc", "nuc", "protein"])
    if kind == "general_generic":
        alph_obj, alph = gen_generic_alphabet(rng, ctx, sizes=[1, 2, 3, 5, 9, 30, 257, 300])
    elif kind == "general_letter":
        alph_obj, alph = gen_letter_alphabet(rng, ctx)
    elif kind == "nuc":
        amb = rng.random() < 0.5
        alph = R.NUC_AMB if amb else R.NUC_UNAMB
        alph_obj = None
    else:
        alph, alph_obj = R.PROT, None
    L = rand_len(rng, 60)
    syms = [alph[i] for i in rng.integers(0, len(alph), size=L)]
    if kind == "nuc" and len(alph) > 4 and L and rng.random() < 0.7:
        syms[ri(rng, L)] = pick(rng, R.NUC_AMB[4:])
    return SeqModel(kind, alph, syms, alph_obj)


def check_seq(ctx, obj, m, what="", full=True, oracle="seq_vs_model"):
    ctx.oracle(oracle)
    exp = m.syms
    if len(obj) != len(exp):
        ctx.fail(oracle, "%s: len %d, model %d" % (what, len(obj), len(exp)))
    got = list(obj.symbols)
    if m.letter:
        got = [str(x) for x in got]
    if got != exp:
        ctx.fail(oracle, "%s: symbols %s, model %s" % (what, _short(got), _short(exp)))
    if str(obj) != m.text():
        ctx.fail(oracle, "%s: str() %r, model %r" % (what, str(obj)[:200], m.text()[:200]))
    if not full:
        return
    index = {s: i for i, s in enumerate(m.alph)}
    code = obj.code
    if code.dtype != seq_dtype(len(m.alph)) or code.tolist() != [index[s] for s in exp]:
        ctx.fail(oracle, "%s: code %s %s" % (what, code.dtype, _short(code.tolist())))
    if tuple(obj.get_alphabet().get_symbols()) != tuple(m.alph):
        ctx.fail(oracle, "%s: alphabet %s, model %s" % (what, _short(obj.get_alphabet().get_symbols()), _short(m.alph)))
    if len(exp) <= 12:
        it = list(obj)
        if (([str(x) for x in it]) if m.letter else it) != exp:
            ctx.fail(oracle, "%s: iteration %s" % (what, _short(it)))
    if not obj.is_valid():
        ctx.fail(oracle, "%s: is_valid() False" % what)


def gen_seq_index(rng, n):
    """-> (index object, positions list | None (scalar), expect IndexError?, description)"""
    kind = pick(rng, ["slice", "slice", "mask", "array", "list", "negarray", "bad_mask", "oob_array"])
    if kind == "slice":
        def b():
            return None if rng.random() < 0.3 else ri(rng, -n - 2, n + 3)
        step = pick(rng, [1, 1, 2, 3, -1, -2]) if rng.random() < 0.7 else None
        sl = slice(b(), b(), step)
        return sl, list(range(n))[sl], False, ("slice", sl.start, sl.stop, sl.step)
    if kind == "mask":
        mask = rng.random(n) < pick(rng, [0.2, 0.5, 0.9])
        how = ri(rng, 3)
        if how == 0 and n:
            bigm = np.zeros(2 * n, dtype=bool)
            bigm[::2] = mask
            obj = bigm[::2]
        elif how == 1:
            obj = mask.tolist() if n else mask
        else:
            obj = mask
        return obj, [int(i) for i in np.nonzero(mask)[0]], False, ("mask", mask.tolist())
    if kind == "bad_mask":
        k = n + ri(rng, 1, 4) if rng.random() < 0.5 or n == 0 else ri(rng, 0, n)
        if k == 0:
            k = n + 1
        mask = rng.random(k) < 0.5
        return mask, None, True, ("bad_mask", mask.tolist())
    if kind == "oob_array":
        pool = [n, n + 3, -n - 1, -n - 4]
        vals = [ri(rng, n) for _ in range(ri(rng, 0, 3))] if n else []
        vals.insert(ri(rng, len(vals) + 1), pick(rng, pool))
        return np.array(vals, dtype=np.int64), None, True, ("oob_array", vals)
    k = ri(rng, 0, n + 1) if n else 0
    idx = [int(i) for i in rng.permutation(n)[:k]] if n else []
    if rng.random() < 0.4:
        idx.sort()
    if kind == "negarray":
        idx2 = [i - n if rng.random() < 0.5 else i for i in idx]
        return np.array(idx2, dtype=pick(rng, ["int16", "int32", "int64"])), idx, False, ("array", idx2)
    if kind == "list":
        return list(idx), idx, False, ("list", idx)
    dt = pick(rng, fitting_dtypes(idx or [0]))
    return np.array(idx, dtype=dt), idx, False, ("array_" + dt, idx)


def gen_item(rng, ctx, m, count):
    """Symbols to assign to `count` positions -> (item object, symbols list, description)."""
    vals = [pick(rng, m.alph) for _ in range(count)]
    forms = ["list", "sequence", "codes"]
    if m.letter:
        forms += ["str"]
    form = pick(rng, forms)
    if form == "list":
        return list(vals), vals, "list"
    if form == "str":
        return "".join(vals), vals, "str"
    if form == "sequence":
        mm = m.clone(vals)
        if m.kind == "nuc" and len(m.alph) == 4:
            mm.syms = vals
        return make_seq(rng, ctx, mm, log=False), vals, "sequence"
    index = {s: i for i, s in enumerate(m.alph)}
    codes = [index[s] for s in vals]
    dt = pick(rng, fitting_dtypes(codes or [0]))
    return np.array(codes, dtype=dt), vals, "codes_" + dt


def seq_step(ctx, rng, st):
    obj, m = st["obj"], st["m"]
    n = len(m.syms)
    ops = ["getitem_int", "getitem", "getitem", "setitem_int", "setitem", "setitem", "add", "reverse", "eq", "copy",
           "bad_symbol", "setitem_mismatch"]
    if m.kind == "nuc":
        ops += ["complement"]
    ops += ["invalid_code"]
    op = pick(rng, ops)
    ctx.op("seq_" + op)
    if op == "invalid_code":
        # codes >= len(alphabet) may be stored (documented: is_valid()), but must never read back as symbols
        na = len(m.alph)
        dtmax = int(np.iinfo(seq_dtype(na)).max)
        cands = [v for v in (na, na + 1, dtmax) if na <= v <= dtmax]
        if ctx.allowed("sequence_code_assignment_wraps"):
            cands += [dtmax + 1, dtmax + 1 + ri(rng, na), -1, -dtmax - 1 + ri(rng, na), 2**32 + ri(rng, na)]
        if not cands:
            return
        v = pick(rng, cands)
        index = {s: i for i, s in enumerate(m.alph)}
        codes = [index[s] for s in m.syms[:5]]
        codes.insert(ri(rng, len(codes) + 1), v)
        how = pick(rng, ["code_setter", "setitem"]) if n >= len(codes) else "code_setter"
        ctx.log("invalid_code", how, codes)
        c = obj.copy()
        arr = np.array(codes, dtype=pick(rng, fitting_dtypes(codes)))
        ctx.oracle("code_out_of_range_rejected")
        try:
            if how == "code_setter":
                c.code = arr
            else:
                c[:len(codes)] = arr
            valid = c.is_valid()
            out = (str(c), list(c.symbols))
        except (AlphabetError, OverflowError) as e:
            ctx.exc(e)
        else:
            ctx.fail("code_out_of_range_rejected", "code %d (alphabet size %d) assigned via %s reads back as %s (is_valid %s)"
                     % (v, na, how, _short(out[0]), valid))
        ctx.mark_nontrivial()
        return
    if op == "getitem_int":
        i = ri(rng, -n - 2, n + 2)
        idx = i if rng.random() < 0.6 else np.int64(i)
        ctx.log("getitem_int", i)
        if -n <= i < n:
            got = obj[idx]
            ctx.check((str(got) if m.letter else got) == m.syms[i] and (not m.letter or isinstance(got, str)),
                      "seq_vs_model", "seq[%d] = %r, model %r" % (i, got, m.syms[i]))
        else:
            ctx.oracle("seq_index_error")
            try:
                got = obj[idx]
            except IndexError as e:
                ctx.exc(e)
            else:
                ctx.fail("seq_index_error", "seq[%d] on length %d returned %r" % (i, n, got))
        return
    if op == "getitem":
        index, posn, bad, desc = gen_seq_index(rng, n)
        ctx.log("getitem", desc)
        if bad:
            ctx.oracle("seq_index_error")
            try:
                got = obj[index]
            except IndexError as e:
                ctx.exc(e)
            else:
                ctx.fail("seq_index_error", "seq[%s] on length %d returned %r" % (desc, n, str(got)[:100]))
            return
        sub = obj[index]
        ctx.check(type(sub) is type(obj), "seq_vs_model", "sub-sequence type %s" % type(sub).__name__)
        sm = m.clone([m.syms[i] for i in posn])
        check_seq(ctx, sub, sm, "seq[%s]" % (desc,))
        check_seq(ctx, obj, m, "parent after getitem", full=False)
        if rng.random() < 0.5:
            st["obj"], st["m"] = sub, sm
        return
    if op == "setitem_int":
        if n == 0:
            return
        i = ri(rng, -n, n)
        v = pick(rng, m.alph)
        ctx.log("setitem_int", i, v)
        obj[i if rng.random() < 0.6 else np.int64(i)] = v
        m.syms[i] = v
        st["changed"] = True
        return
    if op == "setitem":
        index, posn, bad, desc = gen_seq_index(rng, n)
        if bad:
            item, vals, idesc = gen_item(rng, ctx, m, 1)
            ctx.log("setitem!", desc, idesc, vals)
            ctx.oracle("seq_index_error")
            try:
                obj[index] = item
            except IndexError as e:
                ctx.exc(e)
            else:
                ctx.fail("seq_index_error", "seq[%s] = ... on length %d accepted" % (desc, n))
            return
        bcast = rng.random() < 0.2
        item, vals, idesc = gen_item(rng, ctx, m, 1 if bcast else len(posn))
        ctx.log("setitem", desc, idesc, "".join(vals) if m.letter else vals)
        obj[index] = item
        for j, p in enumerate(posn):
            m.syms[p] = vals[0] if bcast else vals[j]
        st["changed"] = st["changed"] or bool(posn)
        return
    if op == "setitem_mismatch":
        index, posn, bad, desc = gen_seq_index(rng, n)
        if bad:
            return
        cnt = len(posn) + ri(rng, 1, 4) if rng.random() < 0.5 or len(posn) < 3 else len(posn) - 1
        if cnt in (1, len(posn)):
            cnt = len(posn) + 2
        item, vals, idesc = gen_item(rng, ctx, m, cnt)
        ctx.log("setitem_mismatch", desc, idesc, len(vals))
        ctx.oracle("seq_shape_mismatch_rejected")
        try:
            obj[index] = item
        except ValueError as e:
            ctx.exc(e)
        else:
            ctx.fail("seq_shape_mismatch_rejected", "%d symbols assigned to %d positions without error" % (cnt, len(posn)))
        return
    if op == "bad_symbol":
        if m.letter:
            outs = [c for c in R.PRINTABLE + ["\x00", "\xff", " "] if c not in m.alph]
            bad = pick(rng, outs)
        else:
            bad = gen_outsider(rng, R.RefCodec(m.alph))
        how = pick(rng, ["int", "slice", "construct"])
        ctx.log("bad_symbol", how, bad)
        if how == "int" and n:
            i = ri(rng, -n, n)
            reject(ctx, "symbol_out_of_alphabet_rejected", "seq[%d] = %r" % (i, bad), lambda: obj.__setitem__(i, bad))
        elif how == "slice" and n:
            a = ri(rng, n)
            reject(ctx, "symbol_out_of_alphabet_rejected", "seq[%d:%d] = [%r]" % (a, a + 1, bad),
                   lambda: obj.__setitem__(slice(a, a + 1), [bad]), also_for("list_str", [bad]) if m.letter else ())
        else:
            items = list(m.syms[:6])
            items.insert(ri(rng, len(items) + 1), bad)
            mm = m.clone(items)
            also = ()
            if m.letter:
                also = (UnicodeEncodeError,) if ord(bad) > 127 else ()
            if m.kind in ("nuc", "protein") and bad.upper() in m.alph:
                return          # constructors upper-case their input
            if m.kind == "nuc" and len(m.alph) == 4 and bad.upper() in R.NUC_AMB:
                reject(ctx, "symbol_out_of_alphabet_rejected", "NucleotideSequence(%r, ambiguous=False)" % "".join(items),
                       lambda: NucleotideSequence("".join(items), ambiguous=False))
            else:
                reject(ctx, "symbol_out_of_alphabet_rejected", "constructor with %r" % (bad,),
                       lambda: make_seq(rng, ctx, mm, log=False), also)
        ctx.mark_nontrivial()
        return
    if op == "add":
        how = pick(rng, ["same", "same", "extended_right", "extended_left", "incompatible"])
        L2 = rand_len(rng, 20)
        if m.kind == "protein" or how == "same":
            om = m.clone([pick(rng, m.alph) for _ in range(L2)])
            how = "same"
        elif m.kind == "nuc":
            oalph = R.NUC_AMB if len(m.alph) == 4 else R.NUC_UNAMB
            if how == "incompatible":
                how = "extended_right"
            om = SeqModel("nuc", oalph, [pick(rng, oalph) for _ in range(L2)])
        else:
            mk = LetterAlphabet if m.kind == "general_letter" else Alphabet
            if how == "incompatible":
                if len(m.alph) < 2:
                    return
                oalph = m.alph[1:] + m.alph[:1]
            elif m.kind == "general_letter":
                extra = [c for c in R.PRINTABLE if c not in m.alph][:ri(rng, 1, 4)]
                if not extra:
                    return
                oalph = m.alph + extra
            else:
                nx = ri(rng, 1, 5)
                wide = rng.random() < 0.5
                if wide:
                    # the extended alphabet needs a wider code type than the original one (more than 256 symbols)
                    nx = max(nx, 257 - len(m.alph) + ri(rng, 0, 41))
                oalph = m.alph + [("extra", len(m.alph) + i) for i in range(nx)]
            osyms = [pick(rng, oalph) for _ in range(L2)]
            if m.kind != "general_letter" and len(oalph) > 256 and osyms:
                osyms[ri(rng, 0, len(osyms))] = oalph[-1]
                osyms[ri(rng, 0, len(osyms))] = oalph[256]
            om = SeqModel(m.kind, oalph, osyms, mk(oalph))
        other = make_seq(rng, ctx, om, log=False)
        left = rng.random() < 0.5 if how != "extended_left" else False
        a, am, b, bm = (obj, m, other, om) if left else (other, om, obj, m)
        ctx.log("add", how, "self+other" if left else "other+self", om.text()[:200] if om.letter else om.syms)
        if how == "incompatible":
            ctx.oracle("seq_incompatible_add_rejected")
            try:
                a + b
            except ValueError as e:
                ctx.exc(e)
            else:
                ctx.fail("seq_incompatible_add_rejected", "+ of sequences over incompatible alphabets accepted")
            return
        res = a + b
        big_alph = am.alph if len(am.alph) >= len(bm.alph) else bm.alph
        big_obj = am.alph_obj if len(am.alph) >= len(bm.alph) else bm.alph_obj
        rm = SeqModel(m.kind, big_alph, am.syms + bm.syms, big_obj)
        check_seq(ctx, res, rm, "a + b")
        check_seq(ctx, a, am, "left operand after +", full=False)
        check_seq(ctx, b, bm, "right operand after +", full=False)
        st["obj"], st["m"] = res, rm
        st["changed"] = st["changed"] or L2 > 0
        return
    if op == "reverse":
        cp = rng.random() < 0.6
        ctx.log("reverse", cp)
        r = obj.reverse() if cp and rng.random() < 0.5 else obj.reverse(copy=cp)
        rm = m.clone(m.syms[::-1])
        check_seq(ctx, r, rm, "reverse")
        check_seq(ctx, obj, m, "original after reverse", full=False)
        if cp and n:
            ctx.check(not np.shares_memory(r.code, obj.code), "copy_independent", "reverse(copy=True) shares memory")
        st["obj"], st["m"] = r, rm
        st["changed"] = st["changed"] or n > 1
        return
    if op == "eq":
        ctx.log("eq")
        ctx.oracle("seq_equality")
        twin = make_seq(rng, ctx, m, log=False)
        if not (obj == twin) or not (twin == obj) or (obj != twin):
            ctx.fail("seq_equality", "sequence != an equal sequence built from the same symbols")
        # equality is by content: an equal sequence whose alphabet is another, equal object (a deep copy, a pickle
        # round trip, an alphabet built separately from the same symbols)
        import copy as _copy
        import pickle as _pickle
        for how, other_ in (("deepcopy", lambda: _copy.deepcopy(obj)), ("pickle", lambda: _pickle.loads(_pickle.dumps(obj)))):
            try:
                o2 = other_()
            except Exception as e:
                ctx.note("sequence_not_%sable:%s" % (how, type(e).__name__))
                continue
            if not (obj == o2) or not (o2 == obj):
                ctx.fail("seq_equality", "sequence != its %s (equal symbols over an equal, non-identical alphabet object)" % how)
        if obj == m.text() or obj == list(m.syms) or obj == obj.code:
            ctx.fail("seq_equality", "sequence == its str/list/code")
        if len(m.alph) >= 2:
            d = list(m.syms)
            if n and rng.random() < 0.7:
                p = ri(rng, n)
                d[p] = pick(rng, [s for s in m.alph if s != d[p]])
            else:
                d.append(pick(rng, m.alph))
            other = make_seq(rng, ctx, m.clone(d), log=False)
            if obj == other or other == obj:
                ctx.fail("seq_equality", "sequence == a sequence with different symbols %s" % _short(d))
        return
    if op == "copy":
        ctx.log("copy")
        ctx.oracle("copy_independent")
        c = obj.copy()
        cm = m.clone(list(m.syms))
        check_seq(ctx, c, cm, "copy")
        if type(c) is not type(obj) or (n and np.shares_memory(c.code, obj.code)) or not (c == obj):
            ctx.fail("copy_independent", "copy has other type, shares memory or != original")
        if n:
            p = ri(rng, n)
            v = pick(rng, m.alph)
            c[p] = v
            cm.syms[p] = v
            if n > 1:
                q = ri(rng, n)
                c.code[q] = 0
                cm.syms[q] = m.alph[0]
            check_seq(ctx, obj, m, "original after writing to its copy")
            check_seq(ctx, c, cm, "copy after writing to it")
            p = ri(rng, n)
            v = pick(rng, m.alph)
            obj[p] = v
            m.syms[p] = v
            check_seq(ctx, c, cm, "copy after writing to the original")
            st["changed"] = True
        if rng.random() < 0.5:
            st["obj"], st["m"] = c, cm
        return
    if op == "complement":
        ctx.log("complement")
        c = obj.complement()
        cm = m.clone([R.IUPAC_COMPLEMENT[s] for s in m.syms])
        check_seq(ctx, c, cm, "complement", oracle="complement_iupac")
        check_seq(ctx, obj, m, "original after complement", full=False)
        st["obj"], st["m"] = c, cm
        return


def case_sequence(rng, ctx):
    m = gen_seq_model(rng, ctx)
    obj = make_seq(rng, ctx, m)
    check_seq(ctx, obj, m, "constructed")
    st = {"obj": obj, "m": m, "changed": False}
    for _ in range(ri(rng, 1, 11)):
        before = list(st["m"].syms)
        cur_obj, cur_m = st["obj"], st["m"]
        seq_step(ctx, rng, st)
        # a rejected call must not have changed the object it was applied to
        check_seq(ctx, st["obj"], st["m"], "after step")
        if st["obj"] is not cur_obj and cur_m is not st["m"]:
            pass
        elif cur_m.syms != before:
            st["changed"] = True
    ctx.state((m.kind, len(st["m"].alph), tuple(str(s) for s in st["m"].syms[:40])))
    if st["changed"] and len(set(map(str, st["m"].syms))) >= 2:
        ctx.mark_nontrivial()


# ------------------------------------------------------------------ complement
def case_complement(rng, ctx):
    amb = rng.random() < 0.6
    alph = R.NUC_AMB if amb else R.NUC_UNAMB
    L = rand_len(rng, 300)
    syms = [alph[i] for i in rng.integers(0, len(alph), size=L)]
    m = SeqModel("nuc", alph, syms)
    s = make_seq(rng, ctx, m)
    ctx.op("complement")
    c = s.complement()
    cm = m.clone([R.IUPAC_COMPLEMENT[x] for x in syms])
    check_seq(ctx, c, cm, "complement", oracle="complement_iupac")
    check_seq(ctx, s, m, "original after complement")
    cc = c.complement()
    check_seq(ctx, cc, m, "complement(complement(x))", oracle="complement_involution")
    if not (cc == s):
        ctx.fail("complement_involution", "complement(complement(x)) != x")
    rc1 = str(s.reverse().complement())
    rc2 = str(s.complement().reverse(copy=False))
    ctx.check(rc1 == rc2 == "".join(R.IUPAC_COMPLEMENT[x] for x in reversed(syms)), "complement_iupac",
              "reverse complement %r / %r" % (rc1[:80], rc2[:80]))
    if L and (c.code is s.code or np.shares_memory(c.code, s.code)):
        ctx.fail("copy_independent", "complement shares memory with the original")
    ctx.state(("compl", amb, "".join(syms[:30])))
    if len(set(syms)) >= 2:
        ctx.mark_nontrivial()


# ------------------------------------------------------------------ codon tables, translation, ORFs
_ACGT_CODONS = ["".join(c) for c in itertools.product("ACGT", repeat=3)]


def _build_table(ctx, fn, starts):
    """An empty start codon set is a legitimate table; a refusal is reported under its own oracle id."""
    if starts:
        return fn()
    ctx.oracle("table_constructible")
    try:
        return fn()
    except ValueError as e:
        ctx.fail("table_constructible", "codon table with an empty start codon set refused: %s" % e)


def gen_table(rng, ctx):
    """-> (CodonTable, aa64 (TCAG order), set of start codons, description)"""
    kind = pick(rng, ["shipped", "shipped", "default", "random", "random", "derived"])
    if kind == "default":
        aa64, _ = R.ncbi_table(1)
        ctx.log("table", "default")
        ctx.op("table_default")
        return CodonTable.default_table(), aa64, {"ATG"}, "default"
    if kind in ("shipped", "derived"):
        tid = pick(rng, R.TABLE_IDS)
        aa64, starts = R.ncbi_table(tid)
        by_name = rng.random() < 0.4
        key = pick(rng, R.TABLE_NAMES[tid]) if by_name else tid
        table = CodonTable.load(key)
        if tid in R.SHIPPED_DATA_DEVIATION:
            ctx.note("shipped_table_%d_deviates_from_ncbi_text(CTG->A)" % tid)
        if kind == "shipped":
            ctx.log("table", "load", key)
            ctx.op("table_shipped")
            return table, aa64, starts, "load(%r)" % (key,)
        if rng.random() < 0.5:
            nonstop = [c for c in R.CODONS if aa64[R.codon_index(c)] != "*"]
            lo = 0 if ctx.allowed("empty_start_codon_set") else 1
            new = sorted({pick(rng, nonstop) for _ in range(ri(rng, lo, 6))})
            ctx.log("table", "load", key, "with_start_codons", new)
            ctx.op("table_with_start_codons")
            narg = [new[int(k)] for k in rng.permutation(len(new))]      # the order of the codons given is arbitrary
            narg = narg if rng.random() < 0.5 else tuple(narg)
            return _build_table(ctx, lambda: table.with_start_codons(narg), new), aa64, set(new), "load(%r).with_start_codons(%r)" % (key, new)
        changes = {pick(rng, R.CODONS): pick(rng, R.PROT) for _ in range(ri(rng, 1, 6))}
        aa = list(aa64)
        for c, a in changes.items():
            aa[R.codon_index(c)] = a
        aa64n = "".join(aa)
        starts = {c for c in starts if aa64n[R.codon_index(c)] != "*"}
        t2 = table.with_codon_mappings(changes)
        if len(starts) != len(R.NCBI_STARTS[tid]):
            if not starts and not ctx.allowed("empty_start_codon_set"):
                return gen_table(rng, ctx)
            sl = sorted(starts)
            sl = [sl[int(k)] for k in rng.permutation(len(sl))]
            t2 = _build_table(ctx, lambda: t2.with_start_codons(sl), starts)
        # the parent table must not have been modified
        ctx.check(table.codon_dict() == {c: aa64[R.codon_index(c)] for c in R.CODONS}, "table_lookup",
                  "with_codon_mappings modified the original table")
        ctx.log("table", "load", key, "with_codon_mappings", changes, sorted(starts))
        ctx.op("table_with_codon_mappings")
        return t2, aa64n, starts, "load(%r).with_codon_mappings(%r)" % (key, changes)
    # random table through the public constructor
    pstop = pick(rng, [0.0, 0.03, 0.05, 0.15])
    letters = R.PROT[:-1] if rng.random() < 0.7 else R.PROT[:20]
    d = {c: ("*" if rng.random() < pstop else pick(rng, letters)) for c in _ACGT_CODONS}
    nonstop = [c for c in _ACGT_CODONS if d[c] != "*"]
    lo = 0 if ctx.allowed("empty_start_codon_set") else 1
    starts = sorted({pick(rng, nonstop) for _ in range(ri(rng, lo, 7))}) if nonstop else []
    if not starts and lo:
        return gen_table(rng, ctx)
    if rng.random() < 0.5:
        items = list(d.items())
        d = dict(items[i] for i in rng.permutation(64))
    ctx.log("table", "random", R.aa64_from_dict(d), starts)
    ctx.op("table_random")
    sarg = [starts[int(k)] for k in rng.permutation(len(starts))]
    sarg = sarg if rng.random() < 0.6 else tuple(sarg)
    return _build_table(ctx, lambda: CodonTable(d, sarg), starts), R.aa64_from_dict(d), set(starts), "CodonTable(random, %r)" % (starts,)


def check_table_api(ctx, table, aa64, starts, desc):
    ctx.op("table_api")
    nuc = {b: i for i, b in enumerate("ACGT")}
    prot = {a: i for i, a in enumerate(R.PROT)}
    for i, c in enumerate(R.CODONS):
        got = table[c]
        ctx.check(got == aa64[i], "table_lookup", "%s[%r] = %r, expected %r" % (desc, c, got, aa64[i]))
        code = tuple(nuc[b] for b in c)
        gotc = table[code if i % 2 else np.array(code, dtype=np.uint8)]
        ctx.check(int(gotc) == prot[aa64[i]], "table_lookup", "%s[%r] = %r, expected %d" % (desc, code, gotc, prot[aa64[i]]))
    for a in sorted(set(aa64))[:6]:
        exp = {c for i, c in enumerate(R.CODONS) if aa64[i] == a}
        got = table[a]
        ctx.check(set(got) == exp and len(got) == len(exp), "table_lookup", "%s[%r] = %r, expected %s" % (desc, a, got, sorted(exp)))
        gotc = table[prot[a]]
        ctx.check({tuple(int(x) for x in t) for t in gotc} == {tuple(nuc[b] for b in c) for c in exp}, "table_lookup",
                  "%s[%d] = %r" % (desc, prot[a], gotc))
    ctx.check(set(table.start_codons()) == set(starts), "table_lookup",
              "%s.start_codons() = %r, expected %s" % (desc, table.start_codons(), sorted(starts)))
    ctx.check(table.codon_dict() == {c: aa64[i] for i, c in enumerate(R.CODONS)}, "table_lookup", "%s.codon_dict() differs" % desc)
    allc = np.array([[nuc[b] for b in c] for c in R.CODONS], dtype=np.uint8)
    ctx.check(table.map_codon_codes(allc).tolist() == [prot[a] for a in aa64], "table_lookup", "%s.map_codon_codes(all 64) differs" % desc)
    ctx.check(table.is_start_codon(allc).tolist() == [c in starts for c in R.CODONS], "table_lookup", "%s.is_start_codon(all 64) differs" % desc)


def gen_dna(rng, aa64, starts, maxlen=300):
    mode = pick(rng, ["uniform", "codons", "codons", "tiny"])
    if mode == "tiny":
        return "".join(pick(rng, "ACGT") for _ in range(ri(rng, 0, 8)))
    if mode == "uniform":
        return "".join("ACGT"[i] for i in rng.integers(0, 4, size=ri(rng, 0, maxlen + 1)))
    stops = [c for i, c in enumerate(R.CODONS) if aa64[i] == "*"]
    sl = sorted(starts)
    pstart, pstop = pick(rng, [0.05, 0.15, 0.4]), pick(rng, [0.0, 0.03, 0.1])
    out = ["".join(pick(rng, "ACGT") for _ in range(ri(rng, 0, 3)))]
    for _ in range(ri(rng, 0, maxlen // 3)):
        r = rng.random()
        if r < pstart and sl:
            out.append(pick(rng, sl))
        elif r < pstart + pstop and stops:
            out.append(pick(rng, stops))
        else:
            out.append(pick(rng, R.CODONS))
        if rng.random() < 0.02:
            out.append(pick(rng, "ACGT"))       # frame shift
    out.append("".join(pick(rng, "ACGT") for _ in range(ri(rng, 0, 3))))
    return "".join(out)[:maxlen]


def make_dna(rng, dna):
    arg = mixed_case(rng, dna) if rng.random() < 0.3 else dna
    if rng.random() < 0.2:
        arg = list(arg)
    return NucleotideSequence(arg) if rng.random() < 0.7 else NucleotideSequence(arg, ambiguous=False)


def sweep_shipped_tables(ctx):
    """Every shipped table, by id and by each of its names, against the NCBI text (64 codons and the start codons)."""
    ctx.op("shipped_tables_by_id_and_every_name")
    for tid in R.TABLE_IDS:
        aa64, starts = R.ncbi_table(tid)
        if tid in R.SHIPPED_DATA_DEVIATION:
            continue
        expect = {c: aa64[i] for i, c in enumerate(R.CODONS)}
        for key in [tid] + list(R.TABLE_NAMES[tid]):
            t = CodonTable.load(key)
            ctx.check(t.codon_dict() == expect, "table_lookup", "CodonTable.load(%r).codon_dict() is not NCBI table %d" % (key, tid))
            ctx.check(set(t.start_codons()) == set(starts), "table_lookup",
                      "CodonTable.load(%r).start_codons() = %r, NCBI table %d has %s" % (key, t.start_codons(), tid, sorted(starts)))


def case_translate(rng, ctx):
    if ctx.index % 150 == 0:
        sweep_shipped_tables(ctx)
    table, aa64, starts, desc = gen_table(rng, ctx)
    if rng.random() < 0.3:
        check_table_api(ctx, table, aa64, starts, desc)
    dna = gen_dna(rng, aa64, starts)
    if rng.random() < 0.85:
        dna = dna[:len(dna) - len(dna) % 3]
    ctx.log("dna", dna)
    s = make_dna(rng, dna)
    use_default = desc == "default" and rng.random() < 0.5
    ctx.op("translate_complete")
    if len(dna) % 3:
        ctx.oracle("translate_partial_codon_rejected")
        try:
            p = s.translate(complete=True, codon_table=table)
        except ValueError as e:
            ctx.exc(e)
        else:
            ctx.fail("translate_partial_codon_rejected", "complete translation of %d nt returned %r" % (len(dna), str(p)))
        return
    p = s.translate(complete=True) if use_default else s.translate(complete=True, codon_table=table)
    exp = R.translate_complete(dna, aa64)
    ctx.check(isinstance(p, ProteinSequence) and str(p) == exp, "translate_vs_lookup",
              "%s: translate(complete) = %r, per-codon lookup %r" % (desc, str(p)[:120], exp[:120]))
    ctx.check(str(s) == dna, "seq_vs_model", "sequence changed by translate")
    ctx.state(("translate", desc[:40], dna[:30]))
    if len(dna) >= 6:
        ctx.mark_nontrivial()
    if rng.random() < 0.1:
        ctx.op("translate_ambiguous")
        reject(ctx, "translate_ambiguous_rejected", "translate of an ambiguous-alphabet sequence",
               lambda: NucleotideSequence(dna, ambiguous=True).translate(complete=True, codon_table=table))


def case_orf(rng, ctx):
    table, aa64, starts, desc = gen_table(rng, ctx)
    dna = gen_dna(rng, aa64, starts)
    met = rng.random() < 0.4
    if (ctx.index or 0) % 200 == 199:
        # a sequence whose codon and nucleotide positions pass 15 / 16 bits (standard table: ORFs stay short)
        aa64, starts = R.ncbi_table(1)
        table, desc = CodonTable.default_table(), "default"
        starts = {"ATG"}
        n_ = int(rng.choice([33000, 66000, 99000, 120000])) + int(rng.integers(0, 3))
        dna = "".join(np.array(list("ACGT"))[rng.integers(0, 4, size=n_)])
        ctx.op("translate_orf_long_sequence")
        ctx.log("dna", "random, %d nt" % n_, "met_start", met)
    else:
        ctx.log("dna", dna, "met_start", met)
    s = make_dna(rng, dna)
    ctx.op("translate_orf" + ("_met" if met else ""))
    kw = {} if desc == "default" and rng.random() < 0.5 else {"codon_table": table}
    if met or rng.random() < 0.3:
        kw["met_start"] = met
    prots, pos = s.translate(**kw) if rng.random() < 0.5 else s.translate(complete=False, **kw)
    exp = R.orf_scan(dna, aa64, starts, met)
    ctx.oracle("orf_vs_naive")
    if len(prots) != len(pos):
        ctx.fail("orf_vs_naive", "%d proteins but %d positions" % (len(prots), len(pos)))
    got = sorted((int(a), int(b), str(p)) for (a, b), p in zip(pos, prots))
    if got != exp:
        ctx.fail("orf_vs_naive", "%s met_start=%s: ORFs %s, naive scan %s" % (desc, met, _short(got), _short(exp)),
                 got=got[:30], expected=exp[:30])
    for p in prots:
        if not isinstance(p, ProteinSequence):
            ctx.fail("orf_vs_naive", "ORF of type %s" % type(p).__name__)
    ctx.check(str(s) == dna, "seq_vs_model", "sequence changed by translate")
    ctx.state(("orf", desc[:40], dna[:30], met))
    if exp:
        ctx.mark_nontrivial()


# ------------------------------------------------------------------ dispatch
_CASES = {
    "letter_grid": case_letter_grid, "letter": case_letter, "generic": case_generic, "mapper": case_mapper,
    "kmer": case_kmer, "sequence": case_sequence, "complement": case_complement, "translate": case_translate,
    "orf": case_orf,
}


def run_case(stratum, rng, ctx):
    _CASES[stratum](rng, ctx)


# ------------------------------------------------------------------ oracle audit
def selftest(ctx):
    # printable set = digits + letters + punctuation (independent definition: ASCII 33..126)
    import string
    assert len(R.PRINTABLE) == 94 and set(R.PRINTABLE) == set(string.digits + string.ascii_letters + string.punctuation)
    # dict codec
    rc = R.RefCodec(["x", 5, ("a", 1), b"x"])
    assert rc.encode([5, b"x", "x"]) == [1, 3, 0] and rc.decode([2, 2, 0]) == [("a", 1), ("a", 1), "x"]
    for bad in (-1, 4):
        try:
            rc.decode([bad])
        except IndexError:
            pass
        else:
            raise AssertionError("reference decode accepted %d" % bad)
    assert not rc.has("y") and not rc.has([1]) and rc.has(5)
    # k-mer codes: position in the lexicographic product order; split inverts; naive windows
    for n, k in ((1, 2), (2, 2), (2, 4), (3, 3), (4, 3), (5, 2)):
        for i, t in enumerate(itertools.product(range(n), repeat=k)):
            assert R.kmer_code(t, n) == i and R.kmer_split(i, n, k) == list(t)
    assert R.naive_kmers([0, 3, 3, 2, 1, 3], 4, [0, 1]) == [3, 15, 14, 9, 7]          # documented example ATTGCT
    assert R.naive_kmers([1, 0, 2, 3, 1], 4, [0, 2, 3]) == [R.kmer_code([1, 2, 3], 4), R.kmer_code([0, 3, 1], 4)]
    assert R.naive_kmers([1, 2], 4, [0, 1, 2]) == []
    # IUPAC complement = code of the set of complemented bases; involution
    base_c = {"A": "T", "C": "G", "G": "C", "T": "A"}
    inv = {frozenset(v): k for k, v in R.IUPAC_SETS.items()}
    assert len(inv) == 15 and sorted(R.IUPAC_SETS) == sorted(R.NUC_AMB)
    for k, v in R.IUPAC_SETS.items():
        assert R.IUPAC_COMPLEMENT[k] == inv[frozenset(base_c[b] for b in v)]
        assert R.IUPAC_COMPLEMENT[R.IUPAC_COMPLEMENT[k]] == k
    # genetic codes
    std = R.STANDARD_AA
    assert len(std) == 64 and len(R.CODONS) == 64 and R.CODONS[0] == "TTT" and R.CODONS[3] == "TTG" and R.CODONS[63] == "GGG"
    assert [R.codon_index(c) for c in R.CODONS] == list(range(64))
    look = lambda c: std[R.codon_index(c)]
    assert look("ATG") == "M" and look("TGG") == "W" and {c for c in R.CODONS if look(c) == "*"} == {"TAA", "TAG", "TGA"}
    from collections import Counter
    cnt = Counter(std)
    assert cnt["L"] == cnt["S"] == cnt["R"] == 6 and cnt["M"] == cnt["W"] == 1 and cnt["*"] == 3 and len(cnt) == 21
    assert all(cnt[a] == 4 for a in "AGPTV") and cnt["I"] == 3 and all(cnt[a] == 2 for a in "FYHQNKDEC")
    assert len(R.TABLE_IDS) == 25 and set(R.NCBI_STARTS) == set(R.NCBI_DIFF) == set(R.TABLE_NAMES)
    for tid in R.TABLE_IDS:
        aa, starts = R.ncbi_table(tid)
        assert len(aa) == 64 and set(aa) <= set(R.PROT) and starts <= set(R.CODONS) and "ATG" in starts
        assert all(aa[R.codon_index(c)] != "*" for c in starts)
        assert sum(1 for a, b in zip(aa, std) if a != b) == len({**R.NCBI_DIFF[tid], **R.SHIPPED_DATA_DEVIATION.get(tid, {})}) \
            - sum(1 for c, a in R.NCBI_DIFF[tid].items() if look(c) == a)
    assert R.translate_complete("AATGATGCTATAGAT", std) == "NDAID"                    # documented example
    assert [p for _, _, p in R.orf_scan("AATGATGCTATAGAT", std, {"ATG"})] == ["MML*", "ML*"]
    assert R.orf_scan("AATGATGCTATAGAT", std, {"ATG"})[0][:2] == (1, 13)
    # naive ORF scan vs a second formulation on every DNA string up to length 7 (and two start sets)
    for L in range(0, 8):
        for tup in itertools.product("ACGT", repeat=L):
            dna = "".join(tup)
            for starts in ({"ATG"}, {"TTG", "CTG", "ATG", "AAA"}):
                for met in (False, True):
                    assert R.orf_scan(dna, std, starts, met) == R.orf_scan_bruteforce(dna, std, starts, met), dna
    rng = np.random.default_rng(7)
    alt = R.aa64_from_diff({"AAA": "*", "CCC": "*", "TAA": "Q"})
    for _ in range(300):
        dna = "".join("ACGT"[i] for i in rng.integers(0, 4, size=int(rng.integers(0, 60))))
        assert R.orf_scan(dna, alt, {"ATG", "GGG", "ACA"}, True) == R.orf_scan_bruteforce(dna, alt, {"ATG", "GGG", "ACA"}, True)
    # the list model's indexing conventions = numpy's on an object array
    base = list("abcde")
    arr = np.array(base, dtype=object)
    for a in list(range(-7, 8)) + [None]:
        for b in list(range(-7, 8)) + [None]:
            for st in (None, 1, 2, -1, -2):
                assert base[slice(a, b, st)] == arr[slice(a, b, st)].tolist()
    for _ in range(200):
        r = np.random.default_rng(_)
        index, posn, bad, desc = gen_seq_index(r, 5)
        if bad:
            try:
                arr[index]
            except IndexError:
                continue
            raise AssertionError("numpy accepted %r" % (desc,))
        assert arr[index].tolist() == [base[i] for i in posn], desc


# ------------------------------------------------------------------ probes (one trigger class each)
def _probe_wide_code(ctx):
    """S05 class: ndarray codes outside [0, 255] given to LetterAlphabet.decode_multiple."""
    for syms in ("ACGT", "0123456789", "".join(R.PRINTABLE)):
        alph = LetterAlphabet(syms)
        n = len(syms)
        for dt in ("int16", "uint16", "int32", "int64", "uint64"):
            for v in (256, 256 + n - 1, 2**15 - 2**15 % 256 + 1, -256, -256 + n - 1, -1, -n):
                if not (np.iinfo(dt).min <= v <= np.iinfo(dt).max):
                    continue
                ctx.log("decode_multiple", syms[:12], dt, v)
                ctx.op("probe_wide_code")
                arr = np.array([0, v], dtype=dt)
                reject(ctx, "code_out_of_range_rejected", "LetterAlphabet(%r...).decode_multiple(%s [0, %d])" % (syms[:12], dt, v),
                       lambda: alph.decode_multiple(arr))


def _probe_seq_code_wrap(ctx):
    """Codes that do not fit the sequence's code dtype assigned through Sequence.code / seq[...] = ndarray."""
    for v in (259, 256, -253, 2**16 + 1):
        for how in ("code_setter", "setitem"):
            s = NucleotideSequence("ACGTAC")
            ctx.log(how, v)
            ctx.op("probe_seq_code_" + how)
            ctx.oracle("code_out_of_range_rejected")
            try:
                if how == "code_setter":
                    s.code = np.array([0, v], dtype=np.int64)
                else:
                    s[1:3] = np.array([0, v], dtype=np.int64)
                out = str(s)
            except (AlphabetError, ValueError, OverflowError) as e:
                ctx.exc(e)
                continue
            ctx.fail("code_out_of_range_rejected", "code %d assigned via %s reads back as %r (codes %s)" % (v, how, out, s.code.tolist()))


def _probe_fuse_eq(ctx):
    """S06 class: a base code equal to len(base alphabet) given to KmerAlphabet.fuse."""
    for syms, k in (("ACGT", 2), ("ACGT", 5), ("a", 3), ("".join(R.PRINTABLE), 3)):
        n = len(syms)
        ka = KmerAlphabet(LetterAlphabet(syms), k)
        for j in range(k):
            t = [0] * k
            t[j] = n
            for arr in (np.array(t, dtype=np.int64), np.array([t, [0] * k], dtype=np.uint8)):
                ctx.log("fuse", syms[:8], k, arr.tolist())
                ctx.op("probe_fuse_eq")
                reject(ctx, "code_out_of_range_rejected", "KmerAlphabet(%d letters, k=%d).fuse(%s)" % (n, k, arr.tolist()),
                       lambda: ka.fuse(arr))


def _probe_fuse_neg(ctx):
    """Negative base codes given to KmerAlphabet.fuse."""
    for syms, k in (("ACGT", 2), ("ACGT", 4), ("ab", 3)):
        n = len(syms)
        ka = KmerAlphabet(LetterAlphabet(syms), k)
        for t in ([1] + [-1] * (k - 1), [-1] + [n - 1] * (k - 1), [0] * (k - 1) + [-n]):
            arr = np.array(t, dtype=np.int64)
            ctx.log("fuse", syms, k, t)
            ctx.op("probe_fuse_neg")
            reject(ctx, "code_out_of_range_rejected", "KmerAlphabet(%r, %d).fuse(%s)" % (syms, k, t), lambda: ka.fuse(arr))


def _probe_fuse_big(ctx):
    """fuse(split(x)) for k-mer codes above 2^53 (split returns uint64; uint64 * int64 -> float64)."""
    for n, k in ((94, 9), (64, 10), (50, 10)):
        ka = KmerAlphabet(LetterAlphabet(R.PRINTABLE[:n]), k)
        for x in (n**k - 2, 2**53 + 1, n**k // 3 * 2 + 1):
            ctx.log("fuse(split)", n, k, x)
            ctx.op("probe_fuse_big")
            sp = ka.split(x)
            ctx.check([int(v) for v in sp] == R.kmer_split(x, n, k), "kmer_fuse_split", "split(%d) = %s" % (x, sp.tolist()))
            fs = ka.fuse(sp)
            ctx.check(int(fs) == x, "kmer_fuse_split", "n=%d k=%d: fuse(split(%d)) = %r (dtype %s)" % (n, k, x, fs, getattr(fs, "dtype", "?")))


def _probe_multichar(ctx):
    """Multi-character strings are symbols outside a letter alphabet; they must not be truncated to their first letter."""
    alph = LetterAlphabet("ACGT")
    cases = [
        ("encode_multiple(list)", lambda: alph.encode_multiple(["AC", "G"])),
        ("encode_multiple(ndarray U2)", lambda: alph.encode_multiple(np.array(["AC", "G"]))),
        ("encode_multiple(tuple)", lambda: alph.encode_multiple(("G", "TTT"))),
        ("GeneralSequence(list)", lambda: str(GeneralSequence(alph, ["A", "CG"]))),
        ("NucleotideSequence(list)", lambda: str(NucleotideSequence(["AC", "G"]))),
        ("ProteinSequence(list)", lambda: str(ProteinSequence(["AL", "G"]))),
    ]
    for what, fn in cases:
        ctx.log(what)
        ctx.op("probe_multichar")
        reject(ctx, "symbol_out_of_alphabet_rejected", what, fn)


def _probe_empty_starts(ctx):
    """A codon table with an empty start codon set is a codon table: no ORFs, complete translation unaffected."""
    aa64, _ = R.ncbi_table(1)
    d = {c: aa64[i] for i, c in enumerate(R.CODONS)}
    for what, mk in (("CodonTable(dict, [])", lambda: CodonTable(d, [])),
                     ("load(1).with_start_codons([])", lambda: CodonTable.load(1).with_start_codons([]))):
        ctx.log(what)
        ctx.op("probe_empty_starts")
        ctx.oracle("table_constructible")
        try:
            table = mk()
        except Exception as e:
            ctx.fail("table_constructible", "%s raised %s: %s" % (what, type(e).__name__, e))
        s = NucleotideSequence("ATGAAATAA")
        ctx.check(str(s.translate(complete=True, codon_table=table)) == "MK*", "translate_vs_lookup", what)
        prots, pos = s.translate(codon_table=table)
        ctx.check(list(prots) == [] and list(pos) == [], "orf_vs_naive", "%s: ORFs %r" % (what, pos))
        ctx.check(tuple(table.start_codons()) == (), "table_lookup", "%s: start_codons() %r" % (what, table.start_codons()))


PROBES = {
    "wide_code_wraps_uint8": _probe_wide_code,
    "sequence_code_assignment_wraps": _probe_seq_code_wrap,
    "fuse_code_equals_len": _probe_fuse_eq,
    "fuse_negative_code": _probe_fuse_neg,
    "fuse_split_roundtrip_above_2p53": _probe_fuse_big,
    "multichar_symbol_truncated": _probe_multichar,
    "empty_start_codon_set": _probe_empty_starts,
}
