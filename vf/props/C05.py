"""C05  BinaryCIF encodings are invertible; compression stays within tolerance.

Monitor: every generated array is pushed through encode -> decode (single
encodings, random type-correct chains, the chains `compress()` selects,
serialised encodings, BinaryCIFData/Column with masks, whole files on BytesIO)
and the result is compared with the input by an oracle that knows, per stage,
which values the target representation can hold (int8..uint32 ranges, int32
after fixed point / interval quantisation / delta / run length / packing).
"Rejected or kept losslessly, never silently altered" is judged element-wise.
The native code is the ASan+UBSan build of the generated encoding.c.
"""

import io
import itertools
import sys

import numpy as np

ID = "C05"
FLAVOUR = "san"
LEVEL = "exploration"
RULE = (
    "seeded generator, one array (or one file) per case: integer arrays of all 8 widths/signs built from "
    "boundary pools (type min/max, +-1, int8/int16/int32 packing limits), runs, ramps, random; float16/32/64 "
    "arrays (coordinates, x.5 steps, near the int32 overflow limit, NaN/inf, subnormal, dynamic range "
    "1e-9..1e9); string arrays (empty, duplicates, non-ASCII, 0-40 chars); lengths 0,1,2..40 (thorough ..400); "
    "strided/big-endian/read-only views; parameter grids per encoding (explicit/omitted src_type, src_size, "
    "origin, byte_count, is_unsigned, factor, min/max/num_steps, strings, nested chains); random type-correct "
    "chains of length 1-4; compress() at tolerances 1e-1..1e-9; files of 1-3 blocks x 1-4 categories with masks. "
    "A case is non-trivial when the array is non-empty and the encoding was actually executed (or rejected by "
    "a predicted rejection); distinct = distinct digest of (parameters, dtype, values)."
)
STRATA = {
    "bytearray": (3000, 150000),
    "fixedpoint": (4000, 200000),
    "interval": (2500, 120000),
    "runlength": (4000, 200000),
    "delta": (4000, 200000),
    "packing": (4000, 200000),
    "stringarray": (3000, 130000),
    "chain": (5000, 220000),
    "compress": (4000, 120000),
    "serialize": (2500, 100000),
    "column": (2000, 60000),
    "file": (1000, 8000),
}
# functions that must leave their arguments untouched (vf.core.PurityMonitor; '!' = the object itself is watched too)
PURE = [
    "biotite.structure.io.pdbx.encoding:ByteArrayEncoding.encode",
    "biotite.structure.io.pdbx.encoding:ByteArrayEncoding.decode",
    "biotite.structure.io.pdbx.encoding:FixedPointEncoding.encode",
    "biotite.structure.io.pdbx.encoding:FixedPointEncoding.decode",
    "biotite.structure.io.pdbx.encoding:IntervalQuantizationEncoding.encode",
    "biotite.structure.io.pdbx.encoding:IntervalQuantizationEncoding.decode",
    "biotite.structure.io.pdbx.encoding:RunLengthEncoding.encode",
    "biotite.structure.io.pdbx.encoding:RunLengthEncoding.decode",
    "biotite.structure.io.pdbx.encoding:DeltaEncoding.encode",
    "biotite.structure.io.pdbx.encoding:DeltaEncoding.decode",
    "biotite.structure.io.pdbx.encoding:IntegerPackingEncoding.encode",
    "biotite.structure.io.pdbx.encoding:IntegerPackingEncoding.decode",
    "biotite.structure.io.pdbx.encoding:StringArrayEncoding.encode",
    "biotite.structure.io.pdbx.encoding:StringArrayEncoding.decode",
]
REQUIRED_ORACLES = [
    "int_roundtrip_exact", "string_roundtrip_exact", "fixedpoint_half_step", "interval_one_step",
    "float_bytes_exact", "chain_roundtrip", "compress_within_tolerance", "compress_exact",
    "unrepresentable_rejected_or_lossless", "representable_accepted",
    "encoding_serialize_roundtrip", "data_serialize_roundtrip", "column_roundtrip", "file_roundtrip", "masked_view_leaves_column",
]
ANCHORS = [
    "biotite.structure.io.pdbx.compress:compress",
    "biotite.structure.io.pdbx.compress:_compress_data",
    "biotite.structure.io.pdbx.compress:_compress_column",
    "biotite.structure.io.pdbx.compress:_compress_file",
    "biotite.structure.io.pdbx.compress:_find_best_integer_compression",
    "biotite.structure.io.pdbx.compress:_get_decimal_places",
    "biotite.structure.io.pdbx.compress:_to_smallest_integer_type",
    "biotite.structure.io.pdbx.compress:_estimate_packed_length",
    "biotite.structure.io.pdbx.compress:_data_size_in_file",
    "biotite.structure.io.pdbx.bcif:BinaryCIFData.serialize",
    "biotite.structure.io.pdbx.bcif:BinaryCIFData.deserialize",
    "biotite.structure.io.pdbx.bcif:BinaryCIFColumn.serialize",
    "biotite.structure.io.pdbx.bcif:BinaryCIFColumn.deserialize",
    "biotite.structure.io.pdbx.bcif:BinaryCIFColumn.as_array",
    "biotite.structure.io.pdbx.bcif:BinaryCIFCategory.serialize",
    "biotite.structure.io.pdbx.bcif:BinaryCIFFile.write",
    "biotite.structure.io.pdbx.bcif:BinaryCIFFile.read",
    "biotite.structure.io.pdbx.bcif:_encode_numpy",
]
OPTIONAL_ANCHORS = []
ASSUMPTIONS = [
    "64-bit integer and float16 inputs are compared by value; the documented storage type is the 32-bit TypeCode "
    "(TypeCode.from_dtype: 'int64 is not supported by format'); IntegerPacking is documented to return int32",
    "a rejection is ValueError, OverflowError or IndexError raised by encode()/compress()/serialize() (or the "
    "SerializationError wrapper of the containers); an exception in decode() of biotite's own output is never a rejection; "
    "KeyError from TypeCode.from_dtype is caught as well so that it is judged by 'representable_accepted' "
    "(it only occurs for the quarantined big-endian 64-bit/float16 class)",
    "IntervalQuantization: only values inside [min,max] are judged (error <= one step); finite values outside are "
    "clamped by the BinaryCIF definition of the encoding and only counted; num_steps >= 2",
    "ByteArrayEncoding(type=float32) on float64 data: rounding to float32 and underflow are accepted (counted); only "
    "overflow of a finite value to +-inf is judged as 'silently altered'",
    "compress(): a finite element whose error exceeds tol*|x| by at most one ulp of the stored float type is "
    "undecided (counted, not judged); zeros must come back as zero; -0.0 == 0.0",
    "type-incorrect chains (floats into RunLength/Delta/IntegerPacking, integers into FixedPoint) are not generated",
    "strings with trailing NUL (numpy strips them) and lone surrogates (not UTF-8 encodable) are not generated",
    "BinaryCIFData.__eq__ uses np.array_equal (NaN != NaN): object equality is only judged for NaN-free content",
    "the iteration of compress._get_decimal_places is bounded by a step counter (2000 decimal places) installed "
    "from outside so that non-termination becomes a verdict instead of a watchdog timeout",
]
MIN_CASES_PER_WORKER = 200
WATCHDOG = {"quick": 900, "thorough": 6 * 3600}
MANIFEST = {
    "technique": "differential round-trip monitor on every generated array/chain/file with an element-wise "
                 "representable-set oracle; ASan/UBSan build of encoding.c; process-exit monitor; "
                 "sys.monitoring reach counters on compress.py / bcif.py",
    "level_text": "Runtime monitoring: tens of thousands (thorough: >1.5 million) generated arrays, parameter "
                  "choices, encoding chains, compress() selections, columns and files are executed on the real "
                  "encoders (ASan+UBSan build of the generated C) and decoded again; an independent oracle that "
                  "knows the value range of every stage judges each element as exact / within half a step / "
                  "within the tolerance / rejected / silently altered.  Held-on-what-was-observed, not a proof.",
    "level_note": "Trusts numpy, msgpack, the driver's range tables (audited in selftest against np.iinfo and "
                  "brute force) and that encoding.c corresponds to encoding.pyx (no Cython here).  Encoded byte "
                  "layout is not compared with the BinaryCIF specification, only invertibility.  Known findings "
                  "are quarantined into probes by input class.",
    "design_ref": "DESIGN.md section 6, C05",
}

# ---------------------------------------------------------------- trigger classes (mechanisms)
T_FP = "fixedpoint_unrepresentable"            # NaN / inf / |x*factor| >= 2^31 into FixedPointEncoding.encode
T_PACK = "packing_value_outside_int32"         # int64/uint64/uint32 value outside int32 into IntegerPackingEncoding.encode
T_NPORIGIN = "delta_origin_wider_numpy_scalar"   # origin given as a signed NumPy scalar wider than unsigned input data
T_DELTA = "delta_value_outside_src_type"       # value (or value-origin in the input dtype) not representable in src_type
T_EMPTY = "empty_array_into_runlength_delta_packing"
T_BAF = "bytearray_float64_overflows_float32"
T_IQ_NF = "interval_nonfinite"
T_IQ_INT = "interval_integer_params_overflow"  # integer min/max with (num_steps-1)*(max-min) >= 2^31
T_C_OVER = "compress_float_int32_overflow"     # S09: non-finite or max|x|*10^decimals >= 2^31
T_C_UNPACK = "compress_float_factor_unpackable"  # decimals >= 20: factor 10**d does not fit msgpack / float32
T_C_HANG = "compress_float_nonterminating"     # decimals needed > what np.round can do (10**d overflows)
T_C_EMPTY = "compress_empty_array"
T_MASKVAL = "masked_value_truncated"             # as_array(str, masked_value=longer than the stored strings)
T_C_EDGE32 = "compress_float32_product_rounds_to_2p31"   # S87: float32 max|x|*10^d within 64 of 2^31: guard in float64, encoder in float32
T_C_PACK32 = "compress_packs_value_outside_int32"   # long column with a value >= 2**31: the size heuristic admits integer packing
T_BE = "bigendian_64bit_or_float16_input"      # TypeCode.from_dtype compares dtype == np.int64 byte-order sensitively

REJECT = (ValueError, OverflowError, IndexError)
LOOP_BOUND = 2000

INT_DTYPES = ["int8", "int16", "int32", "int64", "uint8", "uint16", "uint32", "uint64"]
FLOAT_DTYPES = ["float32", "float64"]
# own table of the documented storage type (not read from biotite)
TC_OF = {"int8": "int8", "int16": "int16", "int32": "int32", "int64": "int32",
         "uint8": "uint8", "uint16": "uint16", "uint32": "uint32", "uint64": "uint32",
         "float16": "float32", "float32": "float32", "float64": "float64"}
TC_CODE = {"int8": 1, "int16": 2, "int32": 3, "uint8": 4, "uint16": 5, "uint32": 6, "float32": 32, "float64": 33}
_RANGE = {"int8": (-2**7, 2**7 - 1), "int16": (-2**15, 2**15 - 1), "int32": (-2**31, 2**31 - 1),
          "int64": (-2**63, 2**63 - 1), "uint8": (0, 2**8 - 1), "uint16": (0, 2**16 - 1),
          "uint32": (0, 2**32 - 1), "uint64": (0, 2**64 - 1)}
I32 = _RANGE["int32"]

pdbx = E = cmod = bcif = msgpack = None
SerializationError = DeserializationError = None


class LoopBoundExceeded(Exception):
    pass


class _BoundedItertools:
    """Stand-in for the `itertools` name inside compress.py: count() stops after LOOP_BOUND steps."""

    def __init__(self, real):
        self._real = real

    def __getattr__(self, name):
        return getattr(self._real, name)

    def count(self, start=0, step=1):
        for i, v in enumerate(self._real.count(start, step)):
            if i > LOOP_BOUND:
                raise LoopBoundExceeded("itertools.count(%r) passed %d steps" % (start, LOOP_BOUND))
            yield v


def setup(ctx):
    global pdbx, E, cmod, bcif, msgpack, SerializationError, DeserializationError
    import importlib
    import warnings
    warnings.filterwarnings("ignore")
    np.seterr(all="ignore")
    import msgpack as msgpack_
    import biotite.structure.io.pdbx as pdbx_
    from biotite.file import DeserializationError as DE, SerializationError as SE
    msgpack = msgpack_
    pdbx = pdbx_
    E = importlib.import_module("biotite.structure.io.pdbx.encoding")
    cmod = importlib.import_module("biotite.structure.io.pdbx.compress")
    bcif = importlib.import_module("biotite.structure.io.pdbx.bcif")
    SerializationError, DeserializationError = SE, DE
    if hasattr(cmod, "itertools") and not isinstance(cmod.itertools, _BoundedItertools):
        cmod.itertools = _BoundedItertools(itertools)


# ---------------------------------------------------------------- small helpers
def irange(dt):
    return _RANGE[str(np.dtype(dt).name)]


def tc_range(dt):
    return _RANGE[TC_OF[str(np.dtype(dt).name)]]


def fits(values, dt):
    lo, hi = irange(dt)
    return all(lo <= v <= hi for v in values)


def pack(obj):
    """msgpack round trip as a file would do it (own default hook, not biotite's)."""
    def default(o):
        if isinstance(o, np.generic):
            return o.item()
        raise TypeError("cannot pack %r" % type(o).__name__)
    return msgpack.unpackb(msgpack.packb(obj, use_bin_type=True, default=default), use_list=True, raw=False)


def kind_of(e):
    return type(e).__name__.replace("Encoding", "")


def arr_desc(x):
    """JSON-able, re-typable description of an input array."""
    if x.dtype.kind in "iu":
        vals = x.tolist()
    elif x.dtype.kind == "f":
        vals = [repr(float(v)) for v in x.tolist()]
    else:
        vals = x.tolist()
    flags = []
    if not x.flags.c_contiguous:
        flags.append("strided")
    if x.dtype.byteorder == ">":
        flags.append("big-endian")
    if not x.flags.writeable:
        flags.append("readonly")
    return {"dtype": str(x.dtype.name), "n": int(x.shape[0]), "values": vals[:80], "flags": flags}


_CTX = [None]


def variant(rng, a, allow=True):
    """Same values as a strided / big-endian / read-only view (sometimes)."""
    r = rng.random()
    if not allow or r > 0.2 or a.dtype.kind == "U":
        return a
    if r < 0.08:
        big = np.zeros(2 * len(a), dtype=a.dtype)
        big[::2] = a
        return big[::2]
    if r < 0.14 and a.dtype.itemsize > 1:
        if a.dtype.name in ("int64", "uint64", "float16") and not _CTX[0].allowed(T_BE):
            return a
        return a.astype(a.dtype.newbyteorder(">"))
    b = a.copy()
    b.flags.writeable = False
    return b


def pick(rng, seq):
    return seq[int(rng.integers(len(seq)))]


def length(rng, ctx, allow_empty=True):
    r = rng.random()
    if r < 0.05 and allow_empty:
        return 0
    if r < 0.12:
        return 1
    if r < 0.22:
        return 2
    hi = 40 if ctx.tier == "quick" else (400 if rng.random() < 0.05 else 80)
    return int(rng.integers(3, hi + 1))


# ---------------------------------------------------------------- integer arrays
def boundary_pool(dt, beyond32=False):
    lo, hi = irange(dt)
    tlo, thi = tc_range(dt)
    pool = {tlo, tlo + 1, thi - 1, thi, 0, 1, 2}
    if lo < 0:
        pool |= {-1, -2}
    for b in (126, 127, 128, 129, 254, 255, 256, 257, 32766, 32767, 32768, 32769, 65534, 65535, 65536,
              2**24, 2**31 - 2, 2**31 - 1, 2**31, 2**31 + 5, 2**32 - 2, 2**32 - 1):
        for v in (b, -b):
            if tlo <= v <= thi:
                pool.add(v)
    if beyond32 and (hi > thi):
        pool |= {thi + 1, thi + 6, 2**40 + 5, hi}
        if lo < 0:
            pool |= {tlo - 1, -2**40, lo}
    return sorted(pool)


def gen_ints(rng, ctx, dt=None, n=None, beyond32=False, allow_empty=True, small=False):
    """Integer array of dtype dt.  Values stay inside the 32-bit storage range unless beyond32."""
    dt = dt or pick(rng, INT_DTYPES)
    n = length(rng, ctx, allow_empty) if n is None else n
    lo, hi = tc_range(dt)
    pool = boundary_pool(dt, beyond32)
    if small:
        pool = [v for v in pool if abs(v) <= 70000] or [0, 1]
        lo, hi = max(lo, -70000), min(hi, 70000)
    style = pick(rng, ["boundary", "runs", "ramp", "random_small", "random_full", "packing_edges", "mixed"])
    vals = []
    if style == "boundary":
        vals = [pick(rng, pool) for _ in range(n)]
    elif style == "runs":
        base = [pick(rng, pool) if rng.random() < 0.5 else int(rng.integers(max(lo, -5), min(hi, 5) + 1)) for _ in range(4)]
        while len(vals) < n:
            vals += [pick(rng, base)] * int(rng.geometric(0.3))
        vals = vals[:n]
    elif style == "ramp":
        step = int(pick(rng, [1, 1, 1, -1, 2, 3, 10, 100, -7]))
        start = pick(rng, pool) if rng.random() < 0.5 else int(rng.integers(max(lo, -1000), min(hi, 1000) + 1))
        for i in range(n):
            v = start + i * step
            if not lo <= v <= hi:       # reflect into range instead of wrapping
                v = lo + (v - lo) % (hi - lo + 1)
            vals.append(v)
    elif style == "random_small":
        a, b = max(lo, -300), min(hi, 300)
        vals = [int(v) for v in rng.integers(a, b + 1, size=n)]
    elif style == "random_full":
        vals = [int(v) for v in rng.integers(lo, hi + 1, size=n, dtype=np.int64)]
    elif style == "packing_edges":
        edges = [v for v in pool if abs(v) <= 70000] or [0]
        vals = [pick(rng, edges) for _ in range(n)]
    else:
        for _ in range(n):
            r = rng.random()
            if r < 0.4:
                vals.append(pick(rng, pool))
            elif r < 0.8:
                vals.append(int(rng.integers(max(lo, -130), min(hi, 130) + 1)))
            else:
                vals.append(int(rng.integers(lo, hi + 1, dtype=np.int64)))
    return np.array(vals, dtype=dt).reshape(-1)


# ---------------------------------------------------------------- float arrays
_SPECIALS = [float("nan"), float("inf"), float("-inf")]


def gen_floats(rng, ctx, dt=None, n=None, factor=None, specials=False, allow_empty=True, wide=True):
    dt = dt or pick(rng, FLOAT_DTYPES)
    n = length(rng, ctx, allow_empty) if n is None else n
    fin = np.finfo(dt)
    style = pick(rng, ["coords", "coords", "halfsteps", "small", "intvalued", "range", "limit", "subnormal", "zeros"])
    f = abs(float(factor)) if factor else 1000.0
    if style == "coords":
        dec = int(pick(rng, [1, 2, 3, 3, 4]))
        v = np.round(rng.uniform(-999, 999, size=n), dec)
    elif style == "halfsteps":
        v = (rng.integers(-2000, 2000, size=n) + 0.5) / f
    elif style == "small":
        v = rng.uniform(-1, 1, size=n) * 10.0 ** float(-rng.integers(0, 10))
    elif style == "intvalued":
        v = rng.integers(-10**6, 10**6, size=n).astype(np.float64)
    elif style == "range":
        span = 9 if wide else 3
        v = np.sign(rng.uniform(-1, 1, size=n)) * 10.0 ** rng.uniform(-span, span, size=n)
    elif style == "limit":
        lim = 2.0**31 / f
        v = np.array([pick(rng, [1.0, -1.0]) * lim * pick(rng, [0.5, 0.9, 0.999, 1.0, 1.001, 1.5, 10.0]) for _ in range(n)])
        if not wide:
            v = np.clip(v, -lim * 0.9, lim * 0.9)
    elif style == "subnormal":
        tiny = float(fin.smallest_subnormal)
        v = np.array([pick(rng, [tiny, -tiny, tiny * 3, float(fin.tiny), float(fin.tiny) / 4, 0.0, 1.5]) for _ in range(n)])
    else:
        v = np.array([pick(rng, [0.0, -0.0, 1.0, -1.0, 0.5]) for _ in range(n)])
    v = np.asarray(v, dtype=np.float64).reshape(-1)
    if specials and n and rng.random() < 0.5:
        for _ in range(int(rng.integers(1, 3))):
            v[int(rng.integers(n))] = pick(rng, _SPECIALS)
    with np.errstate(all="ignore"):
        return v.astype(dt)


# ---------------------------------------------------------------- string arrays
_ALPHA = ["abcdefghijklmnopqrstuvwxyz", "ABCXYZ0123456789", " .,;:'\"?_-#$()[]", "éüßñαβЖ",
          "日本語", "\U0001F600\U0001D11E", "é​", "\t\n\\"]


def gen_string(rng):
    r = rng.random()
    if r < 0.12:
        return ""
    if r < 0.3:
        return pick(rng, ["A", "CA", "N", "ALA", "HOH", ".", "?", "1", "-1", "0.5"])
    n = int(rng.integers(1, 41)) if rng.random() < 0.2 else int(rng.integers(1, 7))
    alph = pick(rng, _ALPHA) if rng.random() < 0.5 else "".join(_ALPHA)
    s = "".join(alph[int(rng.integers(len(alph)))] for _ in range(n))
    if rng.random() < 0.03:
        s = s[:1] + "\x00" + s[1:] + "x"        # inner NUL only
    return s


def gen_strings(rng, ctx, n=None, allow_empty=True):
    n = length(rng, ctx, allow_empty) if n is None else n
    uniq = [gen_string(rng) for _ in range(max(1, int(rng.integers(1, 8))))]
    vals = [pick(rng, uniq) if rng.random() < 0.7 else gen_string(rng) for _ in range(n)]
    if n == 0:
        return np.array([], dtype=pick(rng, ["U1", "U4"]))
    return np.array(vals, dtype=np.str_)


# ---------------------------------------------------------------- encoding specs
def type_param(rng, name):
    """A dtype parameter in one of the accepted forms (numpy name or TypeCode number)."""
    if name is None:
        return None
    tc = TC_OF[name]
    return TC_CODE[tc] if rng.random() < 0.5 and name == tc else name


NP_PARAMS = [False]      # per case: boolean encoding parameters are handed over as np.bool_ (what '(x >= 0).all()' gives)


def mk(spec):
    kind, p = spec
    p = dict(p)
    if NP_PARAMS[0]:
        if isinstance(p.get("is_unsigned"), bool):
            p["is_unsigned"] = np.bool_(p["is_unsigned"])
    if kind == "StringArray":
        if p.get("strings") is not None:
            p["strings"] = np.array(p["strings"], dtype=np.str_)
        for k in ("data_encoding", "offset_encoding"):
            if p.get(k) is not None:
                p[k] = [mk(s) for s in p[k]]
    return getattr(E, kind + "Encoding")(**p)


def packed_length(values, byte_count, unsigned):
    """Own estimate of the number of packed elements (size guard only)."""
    hi = (2 ** (8 * byte_count) - 1) if unsigned else (2 ** (8 * byte_count - 1) - 1)
    lo = hi + 1
    return sum((abs(v) // (hi if v >= 0 else lo)) + 1 for v in values)


PACK_GUARD = 3_000_000


# ---------------------------------------------------------------- class predicates (input features only)
def fp_classify(x, factor):
    """(unrepresentable_mask, band_mask) for FixedPoint: int32 after rounding x*factor."""
    eps = float(np.finfo(TC_OF[x.dtype.name]).eps)
    y = np.abs(x.astype(np.float64) * float(factor))
    m = 2.0**31 * 8 * eps + 2.0
    nonfin = ~np.isfinite(x.astype(np.float64)) | ~np.isfinite(y)
    over = nonfin | (y >= 2.0**31 + m)
    band = ~nonfin & (y > 2.0**31 - 1 - m) & ~over
    return over, band


def fp_sanitize(x, factor, keep_over):
    """Move band elements (and, unless keep_over, unrepresentable ones) to representable values."""
    over, band = fp_classify(x, factor)
    bad = band | (over if not keep_over else np.zeros_like(over))
    if bad.any():
        x = x.copy()
        lim = 2.0**31 / abs(float(factor))
        repl = np.where(np.signbit(x.astype(np.float64)), -0.5 * lim, 0.5 * lim)
        repl = np.where(np.isnan(x.astype(np.float64)), 0.0, repl)
        x[bad] = repl[bad].astype(x.dtype)
        over2, band2 = fp_classify(x, factor)
        still = band2 | (over2 & bad)
        x[still] = 0
    return x


def ref_decimals(x, tol):
    """Own bounded re-statement of 'decimal places needed for relative tolerance tol' (same dtype arithmetic
    as the array); used only to *classify generator inputs*, never to judge.  None = not reachable."""
    a = x[np.isfinite(x) & (x != 0)]
    if a.size == 0:
        return 0
    with np.errstate(all="ignore"):
        start = -int(np.floor(np.log10(np.abs(a.astype(np.float64)))).max())
        for d in range(start, start + 420):
            r = np.round(a, d)
            err = np.abs(r - a)
            if np.all(err < tol * np.abs(a)):
                return d
    return None


def compress_float_class(x, tol):
    """Trigger class of a float array for compress(), from input features; None = clean."""
    if x.size == 0:
        return T_C_EMPTY
    if x.size == 1:
        return None
    d = ref_decimals(x, tol)
    if d is None:
        return T_C_HANG
    if d >= 19:
        return T_C_UNPACK
    xf = x.astype(np.float64)
    if not np.isfinite(xf).all():
        return T_C_OVER
    if xf.size and float(np.max(np.abs(xf))) * 10.0 ** d >= 2.0**31 * 0.97:
        return T_C_OVER
    return None


def delta_class(x, src, origin):
    """True if Delta (src_type=src, origin) gets a value it cannot hold: a value outside src, or
    value-origin leaving the input dtype while src is wider than the input dtype."""
    vals = x.tolist()
    D = x.dtype.name
    T = TC_OF[src] if src else TC_OF[D]
    if origin is not None and not fits([origin], T):
        return True
    if not vals:
        return False
    if not fits(vals, T):
        return True
    o = vals[0] if origin is None else origin
    signed = lambda name: not name.startswith("u")
    if origin is None:
        # the origin is kept as a numpy scalar of the input type and added to the src_type output on decoding
        if signed(D) and not signed(T):
            return True
        if D == "uint64" and signed(T):
            return True
    if D == "uint64":
        # value-origin wraps in uint64 for v < origin; np.diff(prepend=0) then promotes uint64+int64 to float64,
        # and a float64 difference outside int32 is not reduced modulo 2^32 by astype(int32)
        w = [v - o for v in vals]
        if min(w) < 0 or not fits([w[0]] + [b - a for a, b in zip(w, w[1:])], "int32"):
            return True
    if np.dtype(T).itemsize > np.dtype(D).itemsize and not fits([v - o for v in vals], D):
        return True
    return False


# ---------------------------------------------------------------- judges
def first_diff(a, b):
    for i, (p, q) in enumerate(zip(a, b)):
        if p != q:
            return i
    return min(len(a), len(b))


def judge_ints(ctx, oracle, dec, x, what):
    ctx.oracle(oracle)
    if not (isinstance(dec, np.ndarray) and dec.ndim == 1 and dec.dtype.kind in "iu"):
        ctx.fail(oracle, "%s: decoded object is %s, expected 1-d integer array" % (what, _short(dec)))
    a, b = dec.tolist(), x.tolist()
    if a != b:
        i = first_diff(a, b)
        ctx.fail(oracle, "%s: %d elements decoded, %d original; first difference at %d: decoded %s, original %s"
                 % (what, len(a), len(b), i, a[i] if i < len(a) else None, b[i] if i < len(b) else None),
                 decoded=a[:40], original=b[:40])


def judge_strs(ctx, oracle, dec, x, what):
    ctx.oracle(oracle)
    if not (isinstance(dec, np.ndarray) and dec.ndim == 1 and dec.dtype.kind == "U"):
        ctx.fail(oracle, "%s: decoded object is %s, expected 1-d str array" % (what, _short(dec)))
    a, b = dec.tolist(), x.tolist()
    if a != b:
        i = first_diff(a, b)
        ctx.fail(oracle, "%s: first difference at %d: decoded %r, original %r"
                 % (what, i, a[i] if i < len(a) else None, b[i] if i < len(b) else None),
                 decoded=a[:40], original=b[:40])


def float_mismatch(dec, x, bound):
    """Boolean mask of elements not kept: NaN<->NaN, inf must be identical, finite within bound."""
    d = dec.astype(np.float64)
    o = x.astype(np.float64)
    with np.errstate(all="ignore"):
        nan_o = np.isnan(o)
        bad = np.isnan(d) != nan_o
        inf_o = np.isinf(o)
        bad |= inf_o & (d != o)
        fin = np.isfinite(o)
        bad |= fin & ~(np.abs(d - o) <= bound)
    return bad


def judge_floats(ctx, oracle, dec, x, bound, what, only=None):
    ctx.oracle(oracle)
    if not (isinstance(dec, np.ndarray) and dec.ndim == 1 and dec.dtype.kind == "f" and dec.shape == x.shape):
        ctx.fail(oracle, "%s: decoded object is %s, expected float array of length %d" % (what, _short(dec), len(x)))
    bad = float_mismatch(dec, x, bound)
    if only is not None:
        bad &= only
    if bad.any():
        i = int(np.nonzero(bad)[0][0])
        b = bound if np.ndim(bound) == 0 else bound[i]
        ctx.fail(oracle, "%s: element %d = %r decoded as %r (allowed deviation %.6g)"
                 % (what, i, float(x[i]), float(dec[i]), float(b)),
                 original=[repr(float(v)) for v in x[:40]], decoded=[repr(float(v)) for v in dec[:40]])


def judge_dtype(ctx, dec, x, what):
    """Only for directly supported input types and omitted type parameters."""
    if x.dtype.name in TC_CODE:
        ctx.oracle("decoded_dtype")
        if dec.dtype.name != x.dtype.name:
            ctx.fail("decoded_dtype", "%s: decoded dtype %s, original %s" % (what, dec.dtype.name, x.dtype.name))


def _short(x):
    r = repr(x)
    return r if len(r) < 200 else r[:200] + "..."


def roundtrip(ctx, chain, x):
    """encode through the chain, decode back.  Returns (status, value): 'rejected' (exception in encode),
    'decode_failed' (exception decoding biotite's own output) or 'ok'."""
    data = x
    try:
        for e in chain:
            ctx.op("encode:" + kind_of(e))
            data = e.encode(data)
    except REJECT + (KeyError,) as ex:
        ctx.exc(ex)
        return "rejected", ex
    encoded = data
    try:
        for e in reversed(chain):
            ctx.op("decode:" + kind_of(e))
            data = e.decode(data)
    except (ValueError, OverflowError, IndexError, TypeError) as ex:
        ctx.exc(ex)
        return "decode_failed", ex
    return "ok", (encoded, data)


def settle(ctx, status, val, must_hold, what, judge):
    """Common verdict logic.  must_hold: every value is representable -> the round trip has to succeed.
    Otherwise (an unrepresentable value is present): rejected, or judged lossless by `judge(oracle)`."""
    if status == "decode_failed":
        ctx.fail("representable_accepted" if must_hold else "unrepresentable_rejected_or_lossless",
                 "%s: encode() accepted the data but decode() of its output raised %s: %s"
                 % (what, type(val).__name__, val))
    if must_hold:
        ctx.oracle("representable_accepted")
        if status == "rejected":
            ctx.fail("representable_accepted", "%s: every value is representable but encode raised %s: %s"
                     % (what, type(val).__name__, val))
        judge(None)
        return True
    ctx.oracle("unrepresentable_rejected_or_lossless")
    if status == "rejected":
        ctx.note("unrepresentable_rejected")
        return False
    judge("unrepresentable_rejected_or_lossless")
    ctx.note("unrepresentable_kept_losslessly")
    return True


def expect_reject(ctx, oracle, what, fn, classes=REJECT):
    ctx.oracle(oracle)
    try:
        res = fn()
    except classes as ex:
        ctx.exc(ex)
        return
    ctx.fail(oracle, "%s: accepted, returned %s" % (what, _short(res)))


# ================================================================= single encodings
def case_bytearray(rng, ctx):
    if rng.random() < 0.55:
        x = variant(rng, gen_ints(rng, ctx, beyond32=True))
        D = x.dtype.name
        target = pick(rng, [None, None, D] + INT_DTYPES)
        spec = ("ByteArray", {"type": type_param(rng, target)})
        T = TC_OF[target or D]
        ctx.log("ByteArray", spec[1], arr_desc(x))
        ctx.mark_nontrivial(len(x) > 0)
        ctx.state(["ByteArray", D, T, min(len(x), 3)])
        must = fits(x.tolist(), T)
        st, val = roundtrip(ctx, [mk(spec)], x)

        def judge(oracle):
            judge_ints(ctx, oracle or "int_roundtrip_exact", val[1], x, "ByteArray(%s) on %s" % (target, D))
            if val[1].dtype.name != T:
                ctx.fail("decoded_dtype", "ByteArray(%s) decoded dtype %s, expected %s" % (target, val[1].dtype.name, T))
            if not isinstance(val[0], bytes) or len(val[0]) != len(x) * np.dtype(T).itemsize:
                ctx.fail("int_roundtrip_exact", "ByteArray produced %d bytes for %d x %s" % (len(val[0]), len(x), T))
        settle(ctx, st, val, must, "ByteArray(%s) on %s" % (target, D), judge)
        return
    # floats
    D = pick(rng, ["float16", "float32", "float64", "float64"])
    x = gen_floats(rng, ctx, "float64" if D == "float16" else D, specials=True)
    if D == "float16":
        x = np.clip(x, -6e4, 6e4).astype(np.float16)
    x = variant(rng, x)
    target = pick(rng, [None, None, None, "float32", "float64", "int32"])
    if D == "float16" and target == "int32":
        target = None
    spec = ("ByteArray", {"type": type_param(rng, target)})
    ctx.state(["ByteArray", D, target, min(len(x), 3)])
    what = "ByteArray(%s) on %s" % (target, D)
    if target == "int32":
        ctx.log("ByteArray", spec[1], arr_desc(x))
        ctx.mark_nontrivial(len(x) > 0)
        e = mk(spec)
        expect_reject(ctx, "float_into_int_rejected", what, lambda: e.encode(x), (ValueError,))
        return
    T = TC_OF[target or D]
    narrowing = (D == "float64" and T == "float32")
    xf = x.astype(np.float64)
    overflow = narrowing & np.isfinite(xf) & (np.abs(xf) > float(np.finfo(np.float32).max) * (1 + 2.0**-25))
    if overflow.any() and not ctx.allowed(T_BAF):
        x = x.copy() if x.flags.writeable else np.array(x)
        x[overflow] = 1.0
        overflow[:] = False
    ctx.log("ByteArray", spec[1], arr_desc(x))
    ctx.mark_nontrivial(len(x) > 0)
    st, val = roundtrip(ctx, [mk(spec)], x)

    def judge(oracle):
        dec = val[1]
        if dec.dtype.name != T:
            ctx.fail("decoded_dtype", "%s decoded dtype %s, expected %s" % (what, dec.dtype.name, T))
        if not narrowing:
            ctx.oracle(oracle or "float_bytes_exact")
            ref = x.astype(np.dtype(T).newbyteorder("<"))      # widening / same type: lossless by IEEE
            if dec.tobytes() != ref.tobytes():
                bad = float_mismatch(dec, x, 0.0)
                i = int(np.nonzero(bad)[0][0]) if bad.any() else -1
                ctx.fail(oracle or "float_bytes_exact", "%s: element %d = %r decoded as %r" % (
                    what, i, float(x[i]), float(dec[i])))
        else:
            eps32 = float(np.finfo(np.float32).eps)
            bound = eps32 * np.abs(x.astype(np.float64)) + float(np.finfo(np.float32).tiny)
            bound = np.where(np.isfinite(bound), bound, 0.0)
            judge_floats(ctx, oracle or "float_narrowing_within_rounding", dec, x, bound, what)
            ctx.note("float_narrowing_rounded")
    settle(ctx, st, val, not overflow.any(), what, judge)


_FACTORS = [1, 10, 100, 1000, 1000, 10**4, 10**6, 10**9, 0.5, 0.1, 0.01, 1e-3, 3, 7.5, 1e5, 2.0**10]


def fp_bound(x, factor):
    eps = float(np.finfo(TC_OF[x.dtype.name]).eps)
    return 0.5 / abs(float(factor)) * (1 + 1e-9) + 3 * eps * np.abs(x.astype(np.float64)) + 1e-300


def case_fixedpoint(rng, ctx):
    factor = pick(rng, _FACTORS)
    D = pick(rng, FLOAT_DTYPES)
    x = gen_floats(rng, ctx, D, factor=factor, specials=True)
    allowed = ctx.allowed(T_FP)
    x = variant(rng, fp_sanitize(x, factor, keep_over=allowed))
    over, _ = fp_classify(x, factor)
    src = pick(rng, [None, None, D])
    spec = ("FixedPoint", {"factor": factor, "src_type": type_param(rng, src)})
    ctx.log("FixedPoint", spec[1], arr_desc(x))
    ctx.mark_nontrivial(len(x) > 0)
    ctx.state(["FixedPoint", D, str(factor), bool(over.any()), min(len(x), 3)])
    what = "FixedPoint(%s) on %s" % (factor, D)
    st, val = roundtrip(ctx, [mk(spec)], x)

    def judge(oracle):
        enc, dec = val
        if not (isinstance(enc, np.ndarray) and enc.dtype == np.int32 and enc.shape == x.shape):
            ctx.fail("fixedpoint_half_step", "%s: encoded object is %s, expected int32 array" % (what, _short(enc)))
        if dec.dtype.name != D:
            ctx.fail("decoded_dtype", "%s decoded dtype %s" % (what, dec.dtype.name))
        bound = fp_bound(x, factor)
        if oracle is None:
            judge_floats(ctx, "fixedpoint_half_step", dec, x, bound, what)
        else:
            # representable elements first (ordinary oracle), then the unrepresentable ones
            judge_floats(ctx, "fixedpoint_half_step", dec, x, bound, what, only=~over)
            judge_floats(ctx, oracle, dec, x, bound, what, only=over)
    settle(ctx, st, val, not over.any(), what, judge)


_IQ_GRID = [(0, 1), (0.0, 1.0), (-10, 10), (-180.0, 180.0), (0, 100), (1e-3, 1e3), (-1.5, 2.25), (-180, 180), (0, 10000)]
_IQ_STEPS = [2, 3, 11, 11, 101, 101, 256, 1000, 1000, 65536, 65536, 10**6]


def case_interval(rng, ctx):
    lo, hi = pick(rng, _IQ_GRID)
    steps = pick(rng, _IQ_STEPS)
    D = pick(rng, FLOAT_DTYPES)
    n = length(rng, ctx)
    step = (hi - lo) / (steps - 1)
    grid = lo + step * rng.integers(0, steps, size=n)
    style = pick(rng, ["uniform", "grid", "ends", "mixed"])
    if style == "uniform":
        v = rng.uniform(lo, hi, size=n)
    elif style == "grid":
        v = grid
    elif style == "ends":
        v = np.array([pick(rng, [lo, hi, lo + step, hi - step, lo + step / 2, (lo + hi) / 2]) for _ in range(n)], dtype=np.float64)
    else:
        v = np.where(rng.random(n) < 0.5, rng.uniform(lo, hi, size=n), grid)
    v = np.clip(np.asarray(v, dtype=np.float64).reshape(-1), lo, hi)
    outside = np.zeros(n, dtype=bool)
    if n and rng.random() < 0.15:
        k = int(rng.integers(n))
        v[k] = pick(rng, [lo - step, lo - 100 * abs(hi - lo), hi + step / 3, hi + 5 * abs(hi - lo)])
        outside[k] = True
    nonfin = np.zeros(n, dtype=bool)
    if n and rng.random() < 0.12 and ctx.allowed(T_IQ_NF):
        k = int(rng.integers(n))
        v[k] = pick(rng, _SPECIALS)
        nonfin[k] = True
        outside[k] = False
    x = v.astype(D)
    x[~outside & ~nonfin] = np.clip(x[~outside & ~nonfin], np.array(lo).astype(D), np.array(hi).astype(D))
    int_params = isinstance(lo, int) and isinstance(hi, int)
    int_over = int_params and (steps - 1) * (hi - lo) >= 2**31
    if int_over and not ctx.allowed(T_IQ_INT):
        lo, hi = float(lo), float(hi)
        int_over = False
    x = variant(rng, x)
    src = pick(rng, [None, None, D])
    spec = ("IntervalQuantization", {"min": lo, "max": hi, "num_steps": steps, "src_type": type_param(rng, src)})
    ctx.log("IntervalQuantization", {"min": repr(lo), "max": repr(hi), "num_steps": steps, "src_type": spec[1]["src_type"]}, arr_desc(x))
    ctx.mark_nontrivial(n > 0)
    ctx.state(["IQ", D, repr(lo), repr(hi), steps, bool(outside.any()), bool(nonfin.any()), min(n, 3)])
    what = "IntervalQuantization(%r, %r, %d) on %s" % (lo, hi, steps, D)
    st, val = roundtrip(ctx, [mk(spec)], x)
    eps = float(np.finfo(D).eps)
    bound = step * (1 + 1e-6) + 8 * eps * max(abs(lo), abs(hi), abs(hi - lo))

    def judge(oracle):
        enc, dec = val
        if not (isinstance(enc, np.ndarray) and enc.dtype == np.int32 and enc.shape == x.shape):
            ctx.fail("interval_one_step", "%s: encoded object is %s" % (what, _short(enc)))
        inside = ~outside & ~nonfin
        judge_floats(ctx, "interval_one_step", dec, x, bound, what, only=inside)
        if outside.any():
            ctx.note("interval_value_outside_clamped")
        if nonfin.any():
            judge_floats(ctx, oracle or "unrepresentable_rejected_or_lossless", dec, x, bound, what, only=nonfin)
    settle(ctx, st, val, not nonfin.any(), what, judge)


def _size_param(rng, n):
    r = rng.random()
    if r < 0.6:
        return None, False
    if r < 0.85:
        return n, False
    return n + int(pick(rng, [1, -1, 5])) if n + 0 > 0 else n + 1, True


def case_runlength(rng, ctx):
    empty_ok = ctx.allowed(T_EMPTY)
    x = variant(rng, gen_ints(rng, ctx, beyond32=True, allow_empty=empty_ok))
    if rng.random() < 0.5 and len(x) > 1:       # force long runs
        x = np.repeat(x[: max(1, len(x) // 4)], 4)[: len(x)]
    D, n = x.dtype.name, len(x)
    src = pick(rng, [None, None, None, D] + INT_DTYPES[:3] + INT_DTYPES[4:7])
    size, wrong = _size_param(rng, n)
    spec = ("RunLength", {"src_size": size, "src_type": type_param(rng, src)})
    ctx.log("RunLength", spec[1], arr_desc(x))
    ctx.mark_nontrivial(n > 0)
    T = TC_OF[src or D]
    ctx.state(["RunLength", D, T, wrong, min(n, 3)])
    what = "RunLength(src_size=%s, src_type=%s) on %s" % (size, src, D)
    e = mk(spec)
    if wrong:
        expect_reject(ctx, "wrong_src_size_rejected", what, lambda: e.encode(x), (IndexError, ValueError))
        return
    must = fits(x.tolist(), T)
    st, val = roundtrip(ctx, [e], x)

    def judge(oracle):
        enc, dec = val
        judge_ints(ctx, oracle or "int_roundtrip_exact", dec, x, what)
        if dec.dtype.name != T:
            ctx.fail("decoded_dtype", "%s decoded dtype %s, expected %s" % (what, dec.dtype.name, T))
        if not (isinstance(enc, np.ndarray) and enc.dtype == np.int32 and len(enc) % 2 == 0):
            ctx.fail("int_roundtrip_exact", "%s: encoded object is %s" % (what, _short(enc)))
        # a decoder that was never used for encoding and was not told the source size (src_size is an optional parameter;
        # an encoding description without it is read this way) decodes the same data
        if n > 0:
            fresh = mk(("RunLength", {"src_size": None, "src_type": type_param(rng, T)}))
            ctx.op("decode:RunLength[fresh, no src_size]")
            try:
                dec2 = fresh.decode(np.asarray(enc))
            except Exception as ex:
                ctx.fail(oracle or "int_roundtrip_exact", "%s: a fresh RunLengthEncoding(src_type=%s) cannot decode the data: %s: %s" % (what, T, type(ex).__name__, ex))
            judge_ints(ctx, oracle or "int_roundtrip_exact", dec2, x, what + " decoded by a fresh encoding object without src_size")
    settle(ctx, st, val, must, what, judge)


def case_delta(rng, ctx):
    empty_ok = ctx.allowed(T_EMPTY)
    x = variant(rng, gen_ints(rng, ctx, beyond32=ctx.allowed(T_DELTA), allow_empty=True))
    D, n = x.dtype.name, len(x)
    src = pick(rng, [None, None, None, D] + INT_DTYPES[:3] + INT_DTYPES[4:7])
    lo, hi = irange(D)
    origin = None
    if rng.random() < 0.35:
        origin = int(pick(rng, [0, 1, -1, 100, 1000, lo, hi, hi + 1, int(x[0]) if n else 5]))
    if n == 0 and origin is None and not empty_ok:
        origin = 0
    vals = x.tolist()
    if origin is not None and not lo <= origin <= hi:
        spec = ("Delta", {"src_type": type_param(rng, src), "origin": origin})
        ctx.log("Delta", spec[1], arr_desc(x))
        ctx.mark_nontrivial(n > 0)
        e = mk(spec)
        expect_reject(ctx, "origin_outside_input_type_rejected", "Delta(origin=%d) on %s" % (origin, D),
                      lambda: e.decode(e.encode(x)), (OverflowError, ValueError))
        return
    if delta_class(x, src, origin) and not ctx.allowed(T_DELTA):
        src = None
        if delta_class(x, src, origin):
            origin = None if (n > 0 or empty_ok) else 0
        if delta_class(x, src, origin):
            x = x.astype(TC_OF[D])          # same values in the storage type
            D = x.dtype.name
    unrep = delta_class(x, src, origin)
    if origin is not None and D.startswith("u") and D != "uint64" and not unrep and rng.random() < 0.3 and ctx.allowed(T_NPORIGIN):
        origin = np.int64(origin)        # what `int64_array.min()` hands over
        ctx.op("delta_numpy_origin")
    spec = ("Delta", {"src_type": type_param(rng, src), "origin": origin})
    ctx.log("Delta", {k_: (repr(v_) if isinstance(v_, np.generic) else v_) for k_, v_ in spec[1].items()}, arr_desc(x))
    ctx.mark_nontrivial(n > 0)
    T = TC_OF[src or D]
    ctx.state(["Delta", D, T, origin is not None, unrep, min(n, 3)])
    what = "Delta(src_type=%s, origin=%s) on %s" % (src, origin, D)
    st, val = roundtrip(ctx, [mk(spec)], x)

    def judge(oracle):
        enc, dec = val
        judge_ints(ctx, oracle or "int_roundtrip_exact", dec, x, what)
        if oracle is None and dec.dtype.name != T:
            ctx.fail("decoded_dtype", "%s decoded dtype %s, expected %s" % (what, dec.dtype.name, T))
        if not (isinstance(enc, np.ndarray) and enc.dtype == np.int32 and enc.shape == x.shape):
            ctx.fail("int_roundtrip_exact", "%s: encoded object is %s" % (what, _short(enc)))
    settle(ctx, st, val, not unrep, what, judge)


def case_packing(rng, ctx):
    empty_ok = ctx.allowed(T_EMPTY)
    beyond = ctx.allowed(T_PACK)
    x = gen_ints(rng, ctx, beyond32=beyond, small=rng.random() < 0.5)
    D, n = x.dtype.name, len(x)
    bc = int(pick(rng, [1, 1, 1, 2, 2, 2, 3, 4, 0]))
    uns = pick(rng, [None, None, None, True, False])
    if n == 0 and uns is None and not empty_ok:
        uns = False
    vals = x.tolist()
    if not beyond and not fits(vals, "int32"):       # uint32 >= 2^31
        x = np.array([v if v <= I32[1] else v - 2**31 for v in vals], dtype=D)
        vals = x.tolist()
    # size guard: the packed form of a value v has about |v|/limit elements
    if bc in (1, 2):
        eff_uns = (min(vals) >= 0) if (uns is None and vals) else bool(uns)
        wrap = lambda v: ((v + 2**31) % 2**32) - 2**31      # what an unchecked int32 cast would give
        while vals and packed_length([wrap(v) for v in vals], bc, eff_uns) > PACK_GUARD:
            k = max(range(len(vals)), key=lambda i: abs(wrap(vals[i])))
            vals[k] = abs(wrap(vals[k])) // 4099
        x = np.array(vals, dtype=D)
    x = variant(rng, x)
    size, wrong = _size_param(rng, n)
    spec = ("IntegerPacking", {"byte_count": bc, "src_size": size, "is_unsigned": uns})
    ctx.log("IntegerPacking", spec[1], arr_desc(x))
    ctx.mark_nontrivial(n > 0)
    ctx.state(["IntegerPacking", D, bc, uns, wrong, min(n, 3)])
    what = "IntegerPacking(byte_count=%d, is_unsigned=%s, src_size=%s) on %s" % (bc, uns, size, D)
    e = mk(spec)
    if wrong:
        expect_reject(ctx, "wrong_src_size_rejected", what, lambda: e.encode(x), (IndexError, ValueError))
        return
    if bc not in (1, 2):
        if n == 0 and uns is None:
            return
        expect_reject(ctx, "bad_byte_count_rejected", what, lambda: e.encode(x), (ValueError,))
        return
    if uns is True and vals and min(vals) < 0:
        expect_reject(ctx, "negative_into_unsigned_rejected", what, lambda: e.encode(x), (ValueError,))
        return
    must = fits(vals, "int32")
    st, val = roundtrip(ctx, [e], x)

    def judge(oracle):
        enc, dec = val
        judge_ints(ctx, oracle or "int_roundtrip_exact", dec, x, what)
        exp = {(1, True): "uint8", (1, False): "int8", (2, True): "uint16", (2, False): "int16"}
        if oracle is None:
            eu = (min(vals) >= 0) if (uns is None and vals) else bool(uns)
            if not isinstance(enc, np.ndarray) or (enc.dtype.name != exp[(bc, eu)] and (vals or uns is not None)):
                ctx.fail("int_roundtrip_exact", "%s: packed array is %s, expected %s" % (what, _short(enc), exp[(bc, eu)]))
    settle(ctx, st, val, must, what, judge)


# ================================================================= chains
def gen_int_chain(rng, k, final_bytes):
    """k type-correct integer->integer stages (default parameters except byte_count / is_unsigned)."""
    specs = []
    for i in range(k):
        if i == k - 1 and final_bytes:
            specs.append(("ByteArray", {"type": None}))
            break
        kind = pick(rng, ["Delta", "RunLength", "IntegerPacking"])
        if kind == "IntegerPacking" and specs and specs[-1][0] == "IntegerPacking":
            # IntegerPacking is defined on 32-bit integers (its decode() infers the packed type from the dtype it
            # receives and always returns int32): packing a packed array is not a type-correct chain
            kind = pick(rng, ["Delta", "RunLength"])
        if kind == "IntegerPacking":
            specs.append((kind, {"byte_count": int(pick(rng, [1, 2])), "src_size": None,
                                 "is_unsigned": pick(rng, [None, None, False])}))
        elif kind == "Delta":
            specs.append((kind, {"src_type": None, "origin": None}))
        else:
            specs.append((kind, {"src_size": None, "src_type": None}))
    return specs


def roundtrip_specs(ctx, specs, x):
    """Like roundtrip(), but builds the encodings from specs and drops an IntegerPacking stage whose
    output would be huge (size guard of the harness, logged)."""
    chain, data = [], x
    try:
        for spec in specs:
            if spec[0] == "IntegerPacking" and isinstance(data, np.ndarray) and data.dtype.kind in "iu" and len(data):
                vals = data.tolist()
                uns = spec[1]["is_unsigned"]
                uns = (min(vals) >= 0) if uns is None else uns
                if packed_length(vals, spec[1]["byte_count"], uns) > PACK_GUARD:
                    ctx.note("chain_packing_stage_dropped_by_size_guard")
                    ctx.log("dropped", spec[0])
                    continue
            e = mk(spec)
            chain.append(e)
            ctx.op("encode:" + spec[0])
            data = e.encode(data)
    except REJECT + (KeyError,) as ex:
        ctx.exc(ex)
        return "rejected", ex, chain
    encoded = data
    try:
        for e in reversed(chain):
            ctx.op("decode:" + kind_of(e))
            data = e.decode(data)
    except (ValueError, OverflowError, IndexError, TypeError) as ex:
        ctx.exc(ex)
        return "decode_failed", ex, chain
    return "ok", (encoded, data), chain


def data_level(ctx, x, chain, judge_array, exact):
    """BinaryCIFData(x, chain) -> serialize -> msgpack -> deserialize with the already initialised chain."""
    d = pdbx.BinaryCIFData(x, chain)
    ctx.op("BinaryCIFData.serialize")
    ser = d.serialize()
    back = pdbx.BinaryCIFData.deserialize(pack(ser))
    ctx.op("BinaryCIFData.deserialize")
    judge_array("data_serialize_roundtrip", back.array)
    ctx.oracle("data_serialize_roundtrip")
    if back.encoding != chain:
        ctx.fail("data_serialize_roundtrip", "encodings read back differ: %s vs %s" % (_short(back.encoding), _short(chain)))
    if exact and not (back == d and d == back):
        ctx.fail("data_serialize_roundtrip", "BinaryCIFData read back compares unequal although arrays and encodings agree")
    if exact and isinstance(d.array, np.ndarray) and d.array.ndim == 1 and len(d.array) >= 2 and (ctx.index or 0) % 3 == 0:
        # the object has been serialised once; its array is then edited in place (reversed) and it is serialised again:
        # the second serialisation holds the values of that moment
        rev = np.array(d.array[::-1])
        if not np.array_equal(rev, d.array) and d.array.flags.writeable:
            d.array[...] = rev
            ctx.op("BinaryCIFData.serialize_after_edit")
            # judged against a fresh object with the same (already initialised) encodings holding the edited values: what
            # the chain does to values it cannot represent with its now fixed parameters is another matter
            try:
                ser2 = d.serialize()
                fresh = pdbx.BinaryCIFData(rev.copy(), chain).serialize()
            except (ValueError, OverflowError, IndexError) as ex:
                ctx.exc(ex)
                ctx.note("reversed_array_not_encodable_with_this_chain")
                return
            ctx.oracle("data_serialize_roundtrip")
            p2, pf = pack(ser2), pack(fresh)
            if p2 != pf:
                back2 = pdbx.BinaryCIFData.deserialize(p2)
                ctx.fail("data_serialize_roundtrip", "array edited in place after a first serialize(): the second serialisation differs from the "
                         "serialisation of a new object with the same values and encodings (it decodes to %s, the object holds %s)"
                         % (_short(np.asarray(back2.array)), _short(rev)))


def case_chain(rng, ctx):
    k = int(pick(rng, [1, 2, 2, 3, 3, 4, 4]))
    final_bytes = rng.random() < 0.6
    empty_ok = ctx.allowed(T_EMPTY)
    if rng.random() < 0.3:
        # float start
        D = pick(rng, FLOAT_DTYPES)
        if rng.random() < 0.7:
            factor = pick(rng, _FACTORS)
            x = gen_floats(rng, ctx, D, factor=factor, specials=True, allow_empty=empty_ok)
            x = variant(rng, fp_sanitize(x, factor, keep_over=ctx.allowed(T_FP)))
            over, _ = fp_classify(x, factor)
            first = ("FixedPoint", {"factor": factor, "src_type": None})
            bound, oracle0, must = fp_bound(x, factor), "fixedpoint_half_step", not over.any()
        else:
            lo, hi = pick(rng, [(0.0, 1.0), (-180.0, 180.0), (-1.5, 2.25), (0.0, 100.0)])
            steps = int(pick(rng, [2, 11, 101, 256, 1000, 65536]))
            n = length(rng, ctx, empty_ok)
            x = variant(rng, np.clip(rng.uniform(lo, hi, size=n).astype(D), np.array(lo).astype(D), np.array(hi).astype(D)))
            first = ("IntervalQuantization", {"min": lo, "max": hi, "num_steps": steps, "src_type": None})
            step = (hi - lo) / (steps - 1)
            bound = step * (1 + 1e-6) + 8 * float(np.finfo(D).eps) * max(abs(lo), abs(hi), hi - lo)
            oracle0, must = "interval_one_step", True
        specs = [first] + gen_int_chain(rng, k - 1, final_bytes and k > 1)
        ctx.log("chain", [[s[0], {kk: repr(v) for kk, v in s[1].items()}] for s in specs], arr_desc(x))
        ctx.mark_nontrivial(len(x) > 0)
        ctx.state(["chain", D, [s[0] for s in specs], min(len(x), 3)])
        what = "chain %s on %s" % ("->".join(s[0] for s in specs), D)
        st, val, chain = roundtrip_specs(ctx, specs, x)

        def judge(oracle):
            judge_floats(ctx, oracle or "chain_roundtrip", val[1], x, bound, what)
            ctx.oracle(oracle0)
        ok = settle(ctx, st, val, must, what, judge)
        if ok and isinstance(val[0], bytes) and must:
            data_level(ctx, x, chain, lambda o, arr: judge_floats(ctx, o, arr, x, bound, what + " (BinaryCIFData)"), False)
        return
    beyond = ctx.allowed(T_DELTA) and ctx.allowed(T_PACK)
    x = gen_ints(rng, ctx, beyond32=beyond, allow_empty=empty_ok, small=rng.random() < 0.4)
    specs = gen_int_chain(rng, k, final_bytes)
    D, vals = x.dtype.name, x.tolist()
    if specs[0][0] == "IntegerPacking" and not ctx.allowed(T_PACK) and not fits(vals, "int32"):
        x = np.array([v if v <= I32[1] else v - 2**31 for v in vals], dtype=D)
        vals = x.tolist()
    wrap = lambda v: ((v + 2**31) % 2**32) - 2**31
    while specs[0][0] == "IntegerPacking" and vals and packed_length(
            [wrap(v) for v in vals], specs[0][1]["byte_count"],
            min(vals) >= 0 if specs[0][1]["is_unsigned"] is None else False) > PACK_GUARD:
        specs = specs[1:] or [("ByteArray", {"type": None})]      # size guard of the harness
        ctx.note("chain_packing_stage_dropped_by_size_guard")
    if specs[0][0] == "Delta" and delta_class(x, None, None) and not ctx.allowed(T_DELTA):
        x = x.astype(TC_OF[D])
        D = x.dtype.name
    x = variant(rng, x)
    k0 = specs[0][0]
    if k0 in ("ByteArray", "RunLength"):
        must = fits(vals, TC_OF[D])
    elif k0 == "Delta":
        must = not delta_class(x, None, None)
    else:
        must = fits(vals, "int32")
    ctx.log("chain", [[s[0], s[1]] for s in specs], arr_desc(x))
    ctx.mark_nontrivial(len(x) > 0)
    ctx.state(["chain", D, [s[0] for s in specs], must, min(len(x), 3)])
    what = "chain %s on %s" % ("->".join(s[0] for s in specs), D)
    st, val, chain = roundtrip_specs(ctx, specs, x)

    def judge(oracle):
        judge_ints(ctx, oracle or "chain_roundtrip", val[1], x, what)
    ok = settle(ctx, st, val, must, what, judge)
    if ok and isinstance(val[0], bytes) and must:
        data_level(ctx, x, chain, lambda o, arr: judge_ints(ctx, o, arr, x, what + " (BinaryCIFData)"), True)


# ================================================================= strings
def case_many_strings(rng, ctx):
    """A string column with more distinct values than 15 / 16 bits count (atom ids, per-atom labels of a large entry)."""
    u = int(rng.choice([32767, 32769, 40003, 65537]))
    base = np.array(["s%d" % i for i in range(u)])
    x = np.concatenate([base, base[rng.integers(0, u, size=500)]])
    x = x[rng.permutation(len(x))]
    explicit = bool(rng.random() < 0.4)
    strings = [str(v) for v in base[rng.permutation(u)]] if explicit else None
    spec = ("StringArray", {"strings": strings, "data_encoding": None, "offset_encoding": None})
    ctx.log("StringArray", {"mode": "many_distinct", "distinct": u, "explicit": explicit}, [len(x)])
    ctx.op("StringArray.many_distinct")
    ctx.mark_nontrivial()
    ctx.state(["StringArray", "many_distinct", u > 65535, explicit])
    what = "StringArray(%s strings given) on %d strings with %d distinct values" % ("explicit" if explicit else "no", len(x), u)
    e = mk(spec)
    st, val = roundtrip(ctx, [e], x)
    settle(ctx, st, val, True, what, lambda oracle: judge_strs(ctx, oracle or "string_roundtrip_exact", val[1], x, what))


def case_stringarray(rng, ctx):
    if (ctx.index or 0) % 250 == 249:
        return case_many_strings(rng, ctx)
    empty_ok = ctx.allowed(T_EMPTY)
    x = gen_strings(rng, ctx)
    n = len(x)
    uniq = list(dict.fromkeys(x.tolist()))
    mode = pick(rng, ["auto", "auto", "explicit", "extra", "missing"])
    strings = None
    if mode in ("explicit", "extra", "missing"):
        strings = list(uniq)
        if mode == "extra":
            strings += [s for s in ("zzz_extra", "", "éx", "0") if s not in strings][: int(rng.integers(1, 4))]
        if mode == "missing":
            if not strings:
                mode = "explicit"
            else:
                strings.pop(int(rng.integers(len(strings))))
        strings = [strings[i] for i in rng.permutation(len(strings))]

    def sub(allow_chain):
        r = rng.random()
        if r < 0.35:
            return None
        if r < 0.45:
            return []
        if not allow_chain:
            return None
        return gen_int_chain(rng, int(pick(rng, [1, 2, 2, 3])), rng.random() < 0.75)
    de = sub(n > 0 or empty_ok)
    oe = sub(True)
    spec = ("StringArray", {"strings": strings, "data_encoding": de, "offset_encoding": oe})
    ctx.log("StringArray", {"mode": mode, "strings": strings, "data_encoding": de, "offset_encoding": oe}, arr_desc(x))
    ctx.mark_nontrivial(n > 0)
    ctx.state(["StringArray", mode, [s[0] for s in de] if de else de, [s[0] for s in oe] if oe else oe, min(n, 3), len(uniq)])
    what = "StringArray(%s) on %d strings" % (mode, n)
    e = mk(spec)
    if mode == "missing":
        expect_reject(ctx, "missing_string_rejected", what, lambda: e.encode(x), (ValueError, IndexError))
        return
    st, val = roundtrip(ctx, [e], x)

    def judge(oracle):
        judge_strs(ctx, oracle or "string_roundtrip_exact", val[1], x, what)
        got = e.strings.tolist()
        if mode == "auto" and got != uniq:
            ctx.fail("string_roundtrip_exact", "%s: unique strings %r, expected first-occurrence order %r" % (what, got[:20], uniq[:20]))
    settle(ctx, st, val, True, what, judge)
    ends = lambda c: c is None or (len(c) > 0 and c[-1][0] == "ByteArray")
    if ends(de) and ends(oe):
        ctx.op("StringArray.serialize")
        ser = pack(e.serialize())
        e2 = E.deserialize_encoding(ser)
        ctx.oracle("encoding_serialize_roundtrip")
        if not (e2 == e and e == e2):
            ctx.fail("encoding_serialize_roundtrip", "%s: deserialised encoding differs: strings %r vs %r" % (
                what, _short(e2.strings), _short(e.strings)))
        judge_strs(ctx, "encoding_serialize_roundtrip", e2.decode(val[0]), x, what + " decoded by the deserialised encoding")
        data_level(ctx, x, [e], lambda o, arr: judge_strs(ctx, o, arr, x, what + " (BinaryCIFData)"), True)


# ================================================================= compress
_TOLS = [1e-1, 1e-2, 1e-3, 1e-4, 1e-5, 1e-6, 1e-6, 1e-7, 1e-8, 1e-9, None]


def gen_compress_floats(rng, ctx, D, n, tol):
    """Float array for compress(); trigger classes that are quarantined are replaced by clean arrays."""
    style = pick(rng, ["coords", "coords", "occupancy", "bfactor", "generic", "generic", "tiny", "specials", "one_sided", "int32_edge", "int32_edge"])
    if style == "int32_edge":
        # max|x| * 10^decimals within a few ulps (of the array's own dtype) of 2^31, from both sides, in long runs so that
        # the fixed-point chain is the smaller one: the overflow guard of compress() and the arithmetic of the encoder
        # (which multiplies in the dtype of the array) have to agree on which side of int32 the value falls
        if rng.random() < 0.6:
            D = "float32"     # the narrower type has the wider gap between 'fits' and 'rounds up to 2^31'
        d = int(pick(rng, [1, 2, 3, 4, 5, 6, 7] if D == "float32" else [1, 2, 3, 4, 5, 6, 7, 8, 9]))
        T = np.dtype(D).type
        big = T(2.0**31 / 10.0**d)
        k = int(pick(rng, [0, 0, 0, 0, -1, -1, -2, -3, -6, 1, 2, 3]))
        for _ in range(abs(k)):
            big = np.nextafter(big, T(np.inf if k > 0 else 0))
        sign = float(pick(rng, [-1, 1, 1]))
        m = max(n, 64)
        cut = int(rng.integers(m // 4, 3 * m // 4))
        v = np.empty(m, dtype=np.float64)
        v[:cut] = sign * float(big)
        v[cut:] = 15 * 10.0 ** -d          # needs exactly d decimals
        ctx.op("compress_int32_edge_%s" % D)
        return v.astype(D)
    if style == "one_sided":
        # the element of largest magnitude has a definite sign (also negative) and the others need many decimals
        big = float(pick(rng, [2.5e3, 2.5e4, 2.5e5, 2.5e6, 2.1e7])) * float(pick(rng, [-1, -1, 1]))
        v = np.round(rng.uniform(-9, 9, size=n), int(pick(rng, [2, 3, 4, 5])))
        if n:
            v[int(rng.integers(n))] = big + 0.125
    elif style == "coords":
        v = np.round(rng.uniform(-999, 999, size=n), int(pick(rng, [1, 2, 3])))
    elif style == "occupancy":
        v = np.round(rng.uniform(0, 1, size=n), 2)
        v[rng.random(n) < 0.5] = 1.0
    elif style == "bfactor":
        v = np.round(rng.uniform(0, 200, size=n), 2)
    elif style == "tiny":
        v = rng.uniform(1, 10, size=n) * 10.0 ** float(pick(rng, [-12, -18, -25, -36, -42, -300, -310, -320]))
        if rng.random() < 0.5 and n:
            v[int(rng.integers(n))] = 2.5
    elif style == "specials":
        v = np.round(rng.uniform(-99, 99, size=n), 2)
        for _ in range(min(n, int(rng.integers(1, 3)))):
            v[int(rng.integers(n))] = pick(rng, _SPECIALS + [0.0, -0.0])
    else:
        return gen_floats(rng, ctx, D, n=n, specials=rng.random() < 0.2)
    with np.errstate(all="ignore"):
        return np.asarray(v, dtype=np.float64).reshape(-1).astype(D)


def clean_compress_floats(rng, ctx, x, tol):
    """Replace x by arrays of the same length and dtype until no quarantined class applies."""
    D, n = x.dtype.name, len(x)
    cands = [lambda: x,
             lambda: np.round(rng.uniform(-99, 99, size=n), 2).astype(D),
             lambda: rng.integers(-500, 500, size=n).astype(D),
             lambda: np.zeros(n, dtype=D)]
    for c in cands:
        y = c()
        cls = compress_float_class(y, tol)
        if cls is None or ctx.allowed(cls):
            return y, cls
    return np.zeros(max(n, 2), dtype=D), None


def judge_compress_floats(ctx, dec, x, tol, what):
    ctx.oracle("compress_within_tolerance")
    T = TC_OF[x.dtype.name]
    if not (isinstance(dec, np.ndarray) and dec.ndim == 1 and dec.dtype.kind == "f" and dec.shape == x.shape):
        ctx.fail("compress_within_tolerance", "%s: decoded object is %s" % (what, _short(dec)))
    o, d = x.astype(np.float64), dec.astype(np.float64)
    with np.errstate(all="ignore"):
        fin = np.isfinite(o)
        err = np.abs(d - o)
        lim = tol * np.abs(o)
        ulp = np.spacing(np.abs(x.astype(T))).astype(np.float64)
        held = fin & (err <= lim)
        undecided = fin & ~held & (err <= lim + ulp)
        bad = fin & ~held & ~undecided
    if undecided.any():
        ctx.note("undecided_compress_error_within_one_ulp_of_tolerance", int(undecided.sum()))
    if bad.any():
        i = int(np.nonzero(bad)[0][0])
        ctx.fail("compress_within_tolerance",
                 "%s: element %d = %r read back as %r, relative error %.3g > tolerance %g"
                 % (what, i, float(x[i]), float(dec[i]), float(err[i] / abs(o[i])) if o[i] else float("inf"), tol),
                 original=[repr(float(v)) for v in x[:40]], decoded=[repr(float(v)) for v in dec[:40]])
    if (~fin).any():
        judge_floats(ctx, "unrepresentable_rejected_or_lossless", dec, x, 0.0, what, only=~fin)


def compress_roundtrip(ctx, obj, tol, what, to_serial=None):
    """compress(obj) -> serialize -> msgpack -> returns ('ok', (compressed, unpacked)) / ('rejected', exc)."""
    try:
        ctx.op("compress:" + type(obj).__name__)
        c = pdbx.compress(obj) if tol is None else pdbx.compress(obj, tol)
        ser = c.serialize()
        unpacked = pack(ser)
    except LoopBoundExceeded as ex:
        ctx.oracle("compress_terminates")
        ctx.fail("compress_terminates", "%s: the decimal-place search of compress() did not finish within %d steps (%s)"
                 % (what, LOOP_BOUND, ex))
    except REJECT + (TypeError,) as ex:
        ctx.exc(ex)
        return "rejected", ex
    except Exception as ex:
        if SerializationError is not None and isinstance(ex, SerializationError):
            ctx.exc(ex)
            return "rejected", ex
        raise
    ctx.oracle("compress_terminates")
    return "ok", (c, unpacked)


def int_compress_representable(vals):
    if not vals:
        return True
    lo, hi = min(vals), max(vals)
    return (lo >= 0 and hi <= 2**32 - 1) or (lo >= -2**31 and hi <= 2**31 - 1)


def case_compress(rng, ctx):
    tol_arg = pick(rng, _TOLS)
    tol = 1e-6 if tol_arg is None else tol_arg
    empty_ok = ctx.allowed(T_C_EMPTY)
    kind = pick(rng, ["int", "int", "float", "float", "float", "str"])
    cls = None
    if kind == "int":
        x = variant(rng, gen_ints(rng, ctx, beyond32=True, allow_empty=empty_ok))
        r = rng.random()
        if r < 0.10:
            # identifiers beyond the signed 32-bit range (delta/run-length friendly): consecutive or slowly growing values
            # around 2**31, 3e9 and the top of uint32
            dt = pick(rng, ["uint32", "uint32", "int64", "uint64"])
            n = max(3, len(x))
            step = int(pick(rng, [1, 1, 1, 2, 7]))
            base = int(pick(rng, [2**31 - n * step // 2, 2**31, 2**31 + 5, 3_000_000_000, 2**32 - 1 - n * step, 2**31 - n * step - 1]))
            vals = base + np.arange(n, dtype=np.int64) * step
            if rng.random() < 0.3:
                vals = vals + rng.integers(0, 2, size=n)
            if rng.random() < 0.3:
                vals = np.repeat(vals[: max(1, n // 3)], 3)[:n]
            x = variant(rng, vals.astype(dt))
            ctx.op("compress_ids_beyond_int32")
        elif r < 0.125:
            # long arrays: only here the size heuristic of compress() lets integer packing compete for columns that contain
            # a few huge values (the packed form of 2**31 alone has 32769 16-bit elements)
            dt = pick(rng, ["uint32", "uint32", "uint32", "int32", "int64"])
            n = int(pick(rng, [33000, 40000, 70000, 120000]))
            vals = rng.integers(0, int(pick(rng, [2, 200, 60000])), size=n).astype(np.int64)
            lo_, hi_ = tc_range(dt)
            huge = [hi_, hi_ - 1, min(hi_, 2**31), min(hi_, 2**31 + 5), min(hi_, 3_000_000_000)] + ([lo_] if lo_ < 0 else [])
            for _ in range(1 if n < 70000 or rng.random() < 0.6 else 2):
                vals[int(rng.integers(n))] = int(pick(rng, huge))
            x = vals.astype(dt)
            ctx.op("compress_long_array")
        # inside the documented storage type -> must work; inside the range compress() could re-type to
        # (uint32 for a non-negative int64 array) -> may work; otherwise it has to be rejected
        must = fits(x.tolist(), TC_OF[x.dtype.name])
    elif kind == "str":
        x = gen_strings(rng, ctx, allow_empty=empty_ok)
        must = True
    else:
        D = pick(rng, ["float32", "float64", "float64"])
        n = length(rng, ctx, empty_ok)
        x = gen_compress_floats(rng, ctx, D, n, tol)
        x, cls = clean_compress_floats(rng, ctx, x, tol)
        x = variant(rng, x)
        must = cls != T_C_OVER
    ctx.log("compress", {"tolerance": repr(tol_arg)}, arr_desc(x))
    ctx.mark_nontrivial(len(x) > 1)
    what = "compress(BinaryCIFData(%s[%d]), %r)" % (x.dtype.name, len(x), tol_arg)
    st, val = compress_roundtrip(ctx, pdbx.BinaryCIFData(x), tol_arg, what)
    if st == "ok":
        kinds = []
        for e in val[0].encoding:
            kinds.append(kind_of(e))
            if kind_of(e) == "StringArray":
                kinds.append("[" + ",".join(kind_of(s) for s in e.data_encoding) + "|" + ",".join(kind_of(s) for s in e.offset_encoding) + "]")
        ctx.op("compress_chain:" + "->".join(kinds))
        ctx.state(["compress", x.dtype.name, kinds, cls])
        try:
            back = pdbx.BinaryCIFData.deserialize(val[1])
            val = (val[0], back.array)
        except (ValueError, OverflowError, IndexError, TypeError) as ex:
            ctx.exc(ex)
            st, val = "decode_failed", ex

    def judge(oracle):
        dec = val[1]
        if kind == "int":
            judge_ints(ctx, oracle or "compress_exact", dec, x, what)
            judge_ints(ctx, "compress_exact", val[0].array, x, what + " .array of the returned object")
        elif kind == "str":
            judge_strs(ctx, oracle or "compress_exact", dec, x, what)
        else:
            judge_compress_floats(ctx, dec, x, tol, what)
    settle(ctx, st, val, must, what, judge)


# ================================================================= serialised encodings
def case_serialize(rng, ctx):
    kind = pick(rng, ["ByteArray", "FixedPoint", "IntervalQuantization", "RunLength", "Delta", "IntegerPacking"])
    explicit = rng.random() < 0.5
    if kind in ("FixedPoint", "IntervalQuantization"):
        D = pick(rng, FLOAT_DTYPES)
        x = np.round(rng.uniform(0, 1, size=int(rng.integers(1, 12))), 3).astype(D)
        if kind == "FixedPoint":
            p = {"factor": pick(rng, _FACTORS[:8] + [0.5, 7.5]), "src_type": type_param(rng, D) if explicit else None}
        else:
            p = {"min": pick(rng, [0, 0.0, -1.5]), "max": pick(rng, [1, 1.0, 2.25]), "num_steps": int(pick(rng, [2, 11, 256])),
                 "src_type": type_param(rng, D) if explicit else None}
    else:
        x = gen_ints(rng, ctx, allow_empty=False, small=True)
        x = np.abs(x.astype(np.int64) % 120).astype(x.dtype)      # representable everywhere
        if kind == "Delta" and not ctx.allowed(T_DELTA):
            x = x.astype(TC_OF[x.dtype.name])
        D, n = x.dtype.name, len(x)
        if kind == "ByteArray":
            p = {"type": type_param(rng, pick(rng, [D, "int32"])) if explicit else None}
        elif kind == "RunLength":
            p = {"src_size": n if explicit else None, "src_type": type_param(rng, D) if explicit or rng.random() < 0.3 else None}
        elif kind == "Delta":
            p = {"src_type": type_param(rng, D) if explicit else None, "origin": int(pick(rng, [0, 1, 7])) if explicit else None}
        else:
            p = {"byte_count": int(pick(rng, [1, 2])), "src_size": n if explicit else None,
                 "is_unsigned": pick(rng, [True, False]) if explicit else None}
    ctx.log("serialize", kind, {k: repr(v) for k, v in p.items()}, arr_desc(x))
    ctx.mark_nontrivial()
    ctx.state(["serialize", kind, explicit, x.dtype.name])
    e = mk((kind, p))
    what = "%sEncoding(%s)" % (kind, p)
    if any(v is None for v in p.values()):
        expect_reject(ctx, "unset_parameter_rejected", what + ".serialize() before the first encode", e.serialize, (ValueError,))
    enc = e.encode(x)
    ctx.op("encode:" + kind)
    ctx.op("serialize:" + kind)
    ser = e.serialize()
    ctx.oracle("encoding_serialize_roundtrip")
    if ser.get("kind") != kind or any(k != "kind" and ("_" in k) for k in ser):
        ctx.fail("encoding_serialize_roundtrip", "%s serialised as %r" % (what, ser))
    e2 = E.deserialize_encoding(pack(ser))
    if type(e2) is not type(e) or not (e2 == e and e == e2):
        ctx.fail("encoding_serialize_roundtrip", "%s: deserialize(serialize(e)) = %r differs from e = %r" % (what, e2, e))
    d1, d2 = e.decode(enc), e2.decode(enc)
    if d1.dtype != d2.dtype or d1.tobytes() != d2.tobytes():
        ctx.fail("encoding_serialize_roundtrip", "%s: the deserialised encoding decodes differently: %s vs %s" % (what, _short(d2), _short(d1)))
    if x.dtype.kind in "iu":
        judge_ints(ctx, "int_roundtrip_exact", d2, x, what + " (deserialised)")


# ================================================================= columns and files
_NAME_ALPHA = "abcdefghijklmnopqrstuvwxyzABCXYZ0123456789_.-[]"


def gen_name(rng, used):
    while True:
        n = int(rng.integers(1, 13))
        s = "".join(_NAME_ALPHA[int(rng.integers(len(_NAME_ALPHA)))] for _ in range(n))
        if rng.random() < 0.15:
            s = "_" * int(rng.integers(1, 3)) + s        # names may themselves start with underscores
        if s not in used:
            used.add(s)
            return s


def gen_column_content(rng, ctx, n, for_compress_tol=None):
    """(x, chain_specs, mask, mask_specs).  Arrays are representable; quarantined compress classes are avoided
    when the content is going to be compressed."""
    kind = pick(rng, ["int", "int", "float", "str", "str"])
    specs = None
    if kind == "int":
        x = gen_ints(rng, ctx, n=n, small=rng.random() < 0.5)
        if n > 0 and rng.random() < 0.5:
            specs = gen_int_chain(rng, int(pick(rng, [1, 2, 3])), True)
            if specs[0][0] == "IntegerPacking" and not fits(x.tolist(), "int32"):
                specs = [("ByteArray", {"type": None})]
            if specs[0][0] == "Delta" and delta_class(x, None, None):
                specs = None
    elif kind == "float":
        D = pick(rng, FLOAT_DTYPES)
        if for_compress_tol is not None:
            x, _ = clean_compress_floats(rng, ctx, gen_compress_floats(rng, ctx, D, n, for_compress_tol), for_compress_tol)
            if compress_float_class(x, for_compress_tol) is not None:
                x = np.round(rng.uniform(-99, 99, size=max(n, 0)), 2).astype(D)
                if compress_float_class(x, for_compress_tol) is not None:
                    x = np.zeros(n, dtype=D) if n != 0 else x
        else:
            x = gen_floats(rng, ctx, D, n=n, specials=True)
        if n > 0 and rng.random() < 0.3 and for_compress_tol is None:
            # also factors that a 32 bit float cannot hold exactly (the file must carry them as doubles)
            factor = pick(rng, [1, 10, 1000, 0.1, 0.01, 0.3, 7.3, 1e-3])
            x = fp_sanitize(x, factor, keep_over=False)
            specs = [("FixedPoint", {"factor": factor, "src_type": None})] + gen_int_chain(rng, int(pick(rng, [1, 2])), True)
    else:
        x = gen_strings(rng, ctx, n=n)
    mask = mspecs = None
    r = rng.random()
    if r < 0.6:
        mvals = [int(pick(rng, [0, 0, 0, 1, 2])) for _ in range(n)]
        form = pick(rng, ["uint8", "int64", "list", "enum"])
        if form == "uint8":
            mask = np.array(mvals, dtype=np.uint8)
        elif form == "int64":
            mask = np.array(mvals, dtype=np.int64)
        elif form == "list":
            mask = list(mvals) if n else np.array([], dtype=np.uint8)
        else:
            mask = [pdbx.MaskValue(v) for v in mvals] if n else np.array([], dtype=np.uint8)
        if n > 0 and rng.random() < 0.4:
            mspecs = pick(rng, [[("RunLength", {"src_size": None, "src_type": None}), ("ByteArray", {"type": None})],
                                [("IntegerPacking", {"byte_count": 1, "src_size": None, "is_unsigned": None}), ("ByteArray", {"type": None})],
                                [("ByteArray", {"type": "uint8"})]])
    return x, specs, mask, mspecs


def build_column(x, specs, mask, mspecs):
    data = pdbx.BinaryCIFData(x, [mk(s) for s in specs] if specs else None)
    if mask is None:
        return pdbx.BinaryCIFColumn(data)
    if mspecs:
        return pdbx.BinaryCIFColumn(data, pdbx.BinaryCIFData(mask, [mk(s) for s in mspecs]))
    return pdbx.BinaryCIFColumn(data, mask)


def col_desc(x, specs, mask, mspecs):
    return {"data": arr_desc(np.asarray(x)), "encoding": [[s[0], {k: repr(v) for k, v in s[1].items()}] for s in specs] if specs else None,
            "mask": None if mask is None else [int(v) for v in mask][:80], "mask_encoding": [[s[0], s[1]] for s in mspecs] if mspecs else None}


def judge_column(ctx, oracle, col, x, specs, mask, what, tol=None):
    """col (read back) against the written content."""
    ctx.oracle(oracle)
    arr = col.data.array
    if x.dtype.kind in "iu":
        judge_ints(ctx, oracle, arr, x, what)
    elif x.dtype.kind == "U":
        judge_strs(ctx, oracle, arr, x, what)
    elif tol is not None:
        judge_compress_floats(ctx, arr, x, tol, what)
    elif specs and specs[0][0] == "FixedPoint":
        judge_floats(ctx, oracle, arr, x, fp_bound(x, specs[0][1]["factor"]), what)
    else:
        judge_floats(ctx, oracle, arr, x, 0.0, what)
    if mask is None:
        if col.mask is not None:
            ctx.fail(oracle, "%s: a mask appeared on reading" % what)
    else:
        if col.mask is None:
            ctx.fail(oracle, "%s: the mask was lost" % what)
        judge_ints(ctx, oracle, col.mask.array, np.array([int(v) for v in mask], dtype=np.int64), what + " mask")
    # the documented view: masked rows of a str view read '.' / '?'
    if x.dtype.kind in "iuU":
        view = col.as_array(str).tolist()
        exp = [str(v) for v in x.tolist()]
        if mask is not None:
            exp = ["." if int(m) == 1 else "?" if int(m) == 2 else e for e, m in zip(exp, mask)]
        if view != exp:
            i = first_diff(view, exp)
            ctx.fail(oracle, "%s: as_array(str)[%d] = %r, expected %r" % (what, i, view[i] if i < len(view) else None, exp[i] if i < len(exp) else None))
        if mask is not None:
            for mv in ("", "N/A", "0"):
                view2 = col.as_array(str, masked_value=mv).tolist()
                exp2 = [mv if int(m_) != 0 else str(v_) for v_, m_ in zip(x.tolist(), mask)]
                if view2 != exp2:
                    i = first_diff(view2, exp2)
                    ctx.fail(oracle, "%s: as_array(str, masked_value=%r)[%d] = %r, expected %r" % (what, mv, i, view2[i:i + 1], exp2[i:i + 1]))
    # the masked view in the column's own type: masked rows read `masked_value`, and asking for it leaves the column
    # itself (its data, a later view, a later serialisation) as it was
    if mask is not None and arr.dtype.kind in "iuf" and len(arr) > 0:
        ctx.oracle("masked_view_leaves_column")
        sentinel = 7 if arr.dtype.kind in "iu" else -1.5
        before = np.array(arr, copy=True)
        got = col.as_array(arr.dtype, masked_value=sentinel)
        mk_ = np.array([int(m) for m in mask]) != 0
        exp = np.where(mk_, np.asarray(sentinel, dtype=arr.dtype), before)
        if got.dtype != arr.dtype or not np.array_equal(got, exp, equal_nan=arr.dtype.kind == "f"):
            i = first_diff(got.tolist(), exp.tolist())
            ctx.fail("masked_view_leaves_column", "%s: as_array(%s, masked_value=%r)[%d] = %r, expected %r" % (what, arr.dtype.name, sentinel, i, got.tolist()[i:i + 1], exp.tolist()[i:i + 1]))
        after = col.data.array
        if not np.array_equal(after, before, equal_nan=arr.dtype.kind == "f") or not np.array_equal(col.as_array(), before, equal_nan=arr.dtype.kind == "f"):
            ctx.fail("masked_view_leaves_column", "%s: as_array(%s, masked_value=%r) changed the data stored in the column" % (what, arr.dtype.name, sentinel))


def has_nan(x):
    return x.dtype.kind == "f" and bool(np.isnan(x).any())


def case_column(rng, ctx):
    n = length(rng, ctx)
    do_compress = rng.random() < 0.35
    tol_arg = pick(rng, _TOLS) if do_compress else None
    tol = (1e-6 if tol_arg is None else tol_arg) if do_compress else None
    if do_compress and n == 0 and not ctx.allowed(T_C_EMPTY):
        n = 2
    x, specs, mask, mspecs = gen_column_content(rng, ctx, n, tol)
    ctx.log("column", col_desc(x, specs, mask, mspecs), {"compress": repr(tol_arg) if do_compress else None})
    ctx.mark_nontrivial(n > 0)
    ctx.state(["column", x.dtype.name, [s[0] for s in specs] if specs else None, mask is not None, do_compress, min(n, 3)])
    if mask is not None and n > 0 and rng.random() < 0.08:
        bad = list(mask)[:-1] if rng.random() < 0.5 else list(mask) + [0]
        expect_reject(ctx, "mask_length_mismatch_rejected", "BinaryCIFColumn(data[%d], mask[%d])" % (n, len(bad)),
                      lambda: pdbx.BinaryCIFColumn(pdbx.BinaryCIFData(x), bad), (IndexError, ValueError))
    if x.dtype.kind in "iu" and n >= 2 and rng.random() < 0.25 and fits(x.tolist(), "int32"):
        # the data of a column may be handed over as any sequence, not only as list / tuple / ndarray
        import array as _array
        import collections as _collections
        vals = [int(v) for v in x.tolist()]
        forms = [("tuple", tuple(vals)), ("deque", _collections.deque(vals)), ("array.array", _array.array("q", vals))]
        if len(set(np.diff(vals).tolist())) == 1 and vals[1] != vals[0]:
            forms.append(("range", range(vals[0], vals[-1] + (1 if vals[1] > vals[0] else -1), vals[1] - vals[0])))
        fname, seq = forms[int(rng.integers(len(forms)))]
        ctx.op("BinaryCIFData(%s)" % fname)
        ctx.oracle("column_roundtrip")
        d = pdbx.BinaryCIFData(seq)
        if np.shape(d.array) != (n,) or d.array.tolist() != vals or len(d) != n:
            ctx.fail("column_roundtrip", "BinaryCIFData(%s of %d values): array shape %s, len %d" % (fname, n, np.shape(d.array), len(d)))
    col = build_column(x, specs, mask, mspecs)
    what = "BinaryCIFColumn(%s[%d]%s)" % (x.dtype.name, n, ", mask" if mask is not None else "")
    ctx.op("BinaryCIFColumn.serialize")
    back = pdbx.BinaryCIFColumn.deserialize(pack(col.serialize()))
    ctx.op("BinaryCIFColumn.deserialize")
    judge_column(ctx, "column_roundtrip", back, x, specs, mask, what)
    lossy = bool(specs and specs[0][0] == "FixedPoint")
    if not has_nan(x) and not lossy:
        ctx.oracle("column_roundtrip")
        if not (back == col and col == back):
            ctx.fail("column_roundtrip", "%s: the column read back compares unequal to the one written" % what)
    elif has_nan(x):
        ctx.note("equality_not_judged_nan_content")
    if do_compress:
        plain = build_column(x, None, mask, None)
        st, val = compress_roundtrip(ctx, plain, tol_arg, "compress(%s, %r)" % (what, tol_arg))
        ctx.oracle("representable_accepted")
        if st != "ok":
            ctx.fail("representable_accepted", "compress(%s, %r) raised %s: %s" % (what, tol_arg, type(val).__name__, val))
        cback = pdbx.BinaryCIFColumn.deserialize(val[1])
        judge_column(ctx, "column_roundtrip", cback, x, None, mask, "compress(%s, %r)" % (what, tol_arg), tol=tol if x.dtype.kind == "f" else None)


def jsonable_enc(enc):
    """Serialised encoding list with numpy arrays / scalars turned into plain Python (floats keep every digit)."""
    def conv(v):
        if isinstance(v, dict):
            return {k: conv(x) for k, x in sorted(v.items())}
        if isinstance(v, (list, tuple)):
            return [conv(x) for x in v]
        if isinstance(v, np.ndarray):
            return [conv(x) for x in v.tolist()]
        if isinstance(v, np.generic):
            return v.item()
        if isinstance(v, bytes):
            return v.hex()
        return v
    return conv(enc)


def case_file(rng, ctx):
    do_compress = rng.random() < 0.5
    tol_arg = pick(rng, _TOLS) if do_compress else None
    tol = (1e-6 if tol_arg is None else tol_arg) if do_compress else None
    model, desc = {}, {}
    used = set()
    nan_inside = lossy = False
    f = pdbx.BinaryCIFFile()
    for _ in range(int(rng.integers(1, 4))):
        bname = gen_name(rng, used)
        block = pdbx.BinaryCIFBlock()
        model[bname], desc[bname] = {}, {}
        for _ in range(int(rng.integers(1, 5))):
            cname = gen_name(rng, used)
            rows = length(rng, ctx, allow_empty=not do_compress or ctx.allowed(T_C_EMPTY))
            rows = min(rows, 25)
            cat = pdbx.BinaryCIFCategory()
            model[bname][cname], desc[bname][cname] = {}, {}
            for _ in range(int(rng.integers(1, 5))):
                colname = gen_name(rng, used)
                x, specs, mask, mspecs = gen_column_content(rng, ctx, rows, tol)
                nan_inside = nan_inside or has_nan(x)
                lossy = lossy or bool(specs and specs[0][0] == "FixedPoint")
                model[bname][cname][colname] = (x, specs, mask)
                desc[bname][cname][colname] = col_desc(x, specs, mask, mspecs)
                if specs is None and mask is None and rng.random() < 0.3:
                    cat[colname] = x                      # coercion path of __setitem__
                else:
                    cat[colname] = build_column(x, specs, mask, mspecs)
            block[cname] = cat
        f[bname] = block
    ctx.log("file", desc, {"compress": repr(tol_arg) if do_compress else None})
    ctx.mark_nontrivial()
    ctx.state(["file", len(model), sorted(len(b) for b in model.values()), do_compress])

    def write_read(obj, what):
        if ctx.index % 4 == 1:
            from vf.core import through_disk
            return through_disk(ctx, obj, pdbx.BinaryCIFFile, True, ".bcif", as_pathlib=ctx.index % 8 == 1)
        bio = io.BytesIO()
        ctx.op("BinaryCIFFile.write")
        obj.write(bio)
        raw = bio.getvalue()
        ctx.op("BinaryCIFFile.read")
        return pdbx.BinaryCIFFile.read(io.BytesIO(raw)), raw

    def compare(g, what, tol_):
        ctx.oracle("file_roundtrip")
        if list(g.keys()) != list(model.keys()):
            ctx.fail("file_roundtrip", "%s: block names %r, written %r" % (what, list(g.keys()), list(model.keys())))
        for bname, cats in model.items():
            gb = g[bname]
            if list(gb.keys()) != list(cats.keys()):
                ctx.fail("file_roundtrip", "%s: categories of %r are %r, written %r" % (what, bname, list(gb.keys()), list(cats.keys())))
            for cname, cols in cats.items():
                gc = gb[cname]
                if list(gc.keys()) != list(cols.keys()):
                    ctx.fail("file_roundtrip", "%s: columns of %r are %r, written %r" % (what, cname, list(gc.keys()), list(cols.keys())))
                rows = len(next(iter(cols.values()))[0])
                if gc.row_count != rows:
                    ctx.fail("file_roundtrip", "%s: row_count of %r is %r, written %d" % (what, cname, gc.row_count, rows))
                for colname, (x, specs, mask) in cols.items():
                    judge_column(ctx, "file_roundtrip", gc[colname], x, None if tol_ else specs, mask,
                                 "%s %s.%s.%s" % (what, bname, cname, colname), tol=tol_ if x.dtype.kind == "f" else None)

    g, raw = write_read(f, "file")
    compare(g, "file written and read", None)
    # the encodings themselves (with their float parameters: factor, min, max) read back as written
    ctx.oracle("file_encoding_parameters")
    for bname, cats in model.items():
        for cname, cols in cats.items():
            for colname in cols:
                for part in ("data", "mask"):
                    dw, dr = getattr(f[bname][cname][colname], part), getattr(g[bname][cname][colname], part)
                    if dw is None or dr is None:
                        if (dw is None) != (dr is None):
                            ctx.fail("file_encoding_parameters", "%s.%s.%s: %s present %s, read %s" % (bname, cname, colname, part, dw is not None, dr is not None))
                        continue
                    ew, er = dw.serialize()["encoding"], dr.serialize()["encoding"]
                    if repr(jsonable_enc(ew)) != repr(jsonable_enc(er)):
                        ctx.fail("file_encoding_parameters", "%s.%s.%s %s: encodings written %r, read %r"
                                 % (bname, cname, colname, part, jsonable_enc(ew), jsonable_enc(er)))
    if not nan_inside and not lossy:
        ctx.oracle("file_roundtrip")
        if not (g == f and f == g):
            ctx.fail("file_roundtrip", "the file read back compares unequal to the file written")
    # a file that was read can be written again and still holds the same content
    g2, raw2 = write_read(g, "file rewritten")
    compare(g2, "file read, rewritten and read", None)
    if do_compress:
        st, val = "ok", None
        try:
            ctx.op("compress:BinaryCIFFile")
            c = pdbx.compress(f) if tol_arg is None else pdbx.compress(f, tol_arg)
            gc_, _ = write_read(c, "compressed file")
        except LoopBoundExceeded as ex:
            ctx.fail("compress_terminates", "compress(file, %r): decimal-place search did not finish: %s" % (tol_arg, ex))
        except REJECT + (TypeError,) as ex:
            ctx.exc(ex)
            st, val = "rejected", ex
        except Exception as ex:
            if isinstance(ex, (SerializationError, DeserializationError)):
                ctx.exc(ex)
                st, val = "rejected", ex
            else:
                raise
        ctx.oracle("representable_accepted")
        if st != "ok":
            ctx.fail("representable_accepted", "compress(file, %r) / write / read raised %s: %s" % (tol_arg, type(val).__name__, val))
        compare(gc_, "file compressed (%r), written and read" % tol_arg, tol)


# ================================================================= dispatch
_CASES = {
    "bytearray": case_bytearray, "fixedpoint": case_fixedpoint, "interval": case_interval,
    "runlength": case_runlength, "delta": case_delta, "packing": case_packing,
    "stringarray": case_stringarray, "chain": case_chain, "compress": case_compress,
    "serialize": case_serialize, "column": case_column, "file": case_file,
}


def run_case(stratum, rng, ctx):
    NP_PARAMS[0] = (ctx.index or 0) % 4 == 1
    _CTX[0] = ctx
    _CASES[stratum](rng, ctx)


# ================================================================= oracle audit
class _Probe(Exception):
    pass


class _FakeCtx:
    """Minimal ctx for auditing the judges: fail() raises _Probe."""

    def __init__(self):
        self.n = 0

    def oracle(self, *_a, **_k):
        self.n += 1

    def note(self, *_a, **_k):
        pass

    def fail(self, oracle, msg, **_k):
        raise _Probe(oracle)


def _flags(fn):
    try:
        fn()
    except _Probe as p:
        return str(p)
    return None


def selftest(ctx):
    # range tables against numpy, storage-type table, brute force of fits()
    for dt in INT_DTYPES:
        info = np.iinfo(dt)
        assert irange(dt) == (int(info.min), int(info.max)), dt
        lo, hi = irange(dt)
        for v in (lo - 1, lo, lo + 1, -1, 0, 1, hi - 1, hi, hi + 1):
            ok = True
            try:
                np.array([v], dtype=dt)
            except OverflowError:
                ok = False
            assert fits([v], dt) == ok, (dt, v)
    assert tc_range("int64") == I32 and tc_range("uint64") == (0, 2**32 - 1) and tc_range("uint8") == (0, 255)
    for name, code in TC_CODE.items():
        assert TC_OF[name] == name and isinstance(code, int)
    # comparators: exhaustive over all arrays of length <= 3 over {-1,0,1}: equal iff identical lists
    f = _FakeCtx()
    vals = [-1, 0, 1]
    arrays = [()] + [(a,) for a in vals] + [(a, b) for a in vals for b in vals] + [(a, b, c) for a in vals for b in vals for c in vals]
    for p in arrays:
        for q in arrays:
            r = _flags(lambda: judge_ints(f, "o", np.array(p, dtype=np.int8), np.array(q, dtype=np.int64), "t"))
            assert (r is None) == (p == q), (p, q, r)
    assert _flags(lambda: judge_ints(f, "o", np.array([2**32 - 1], dtype=np.uint32), np.array([-1], dtype=np.int32), "t")) == "o"
    assert _flags(lambda: judge_ints(f, "o", np.array([1.0]), np.array([1]), "t")) == "o"
    assert _flags(lambda: judge_strs(f, "o", np.array(["a", ""]), np.array(["a", ""]), "t")) is None
    assert _flags(lambda: judge_strs(f, "o", np.array(["a", "b"]), np.array(["a", ""]), "t")) == "o"
    # float comparator: NaN<->NaN, inf identical, finite within bound
    nan, inf = float("nan"), float("inf")
    x = np.array([nan, inf, -inf, 1.0, 0.0])
    assert _flags(lambda: judge_floats(f, "o", x.copy(), x, 0.0, "t")) is None
    for i, wrong in enumerate([0.0, -inf, inf, 1.0 + 1e-9, 1e-300]):
        y = x.copy()
        y[i] = wrong
        assert _flags(lambda: judge_floats(f, "o", y, x, 1e-12 if i == 3 else 0.0, "t")) == "o", i
    y = x.copy()
    y[3] = 1.0004
    assert _flags(lambda: judge_floats(f, "o", y, x, fp_bound(x, 1000), "t")) is None
    y[3] = 1.0006
    assert _flags(lambda: judge_floats(f, "o", y, x, fp_bound(x, 1000), "t")) == "o"
    assert _flags(lambda: judge_floats(f, "o", np.array([-2147483648.0]), np.array([nan]), 1.0, "t")) == "o"
    # compress judge on the literal S09 outcome and on exact / in-tolerance outcomes
    s09 = np.array([0.001234567, 123456.789, 5.5])
    assert _flags(lambda: judge_compress_floats(f, s09.copy(), s09, 1e-6, "t")) is None
    assert _flags(lambda: judge_compress_floats(f, s09 * (1 + 5e-7), s09, 1e-6, "t")) is None
    assert _flags(lambda: judge_compress_floats(f, s09 * (1 + 2e-6), s09, 1e-6, "t")) == "compress_within_tolerance"
    assert _flags(lambda: judge_compress_floats(f, np.array([0.001234567, -2.147483648, -2.147483648]), s09, 1e-6, "t")) == "compress_within_tolerance"
    assert _flags(lambda: judge_compress_floats(f, np.array([1.5, -214748364.8]), np.array([1.5, nan]), 1e-6, "t")) == "unrepresentable_rejected_or_lossless"
    assert _flags(lambda: judge_compress_floats(f, np.array([1e-9, 2.0]), np.array([0.0, 2.0]), 1e-1, "t")) == "compress_within_tolerance"
    # class predicates
    over, band = fp_classify(np.array([1.0, nan, inf, 2147483.0, 2147483.647, 2147483.6485, 2147484.0, -3e6]), 1000)
    assert over.tolist() == [False, True, True, False, False, False, True, True], over.tolist()
    assert band.tolist() == [False, False, False, False, True, True, False, False], band.tolist()
    xs = fp_sanitize(np.array([1.0, nan, 2147483.647, 5e6]), 1000, keep_over=False)
    o2, b2 = fp_classify(xs, 1000)
    assert not o2.any() and not b2.any() and xs[0] == 1.0
    # decimal places: brute force on exact decimals k/10^d (d = 0..4): the reference never needs more than d
    for d in range(5):
        for k in (1, 7, 123, 99999, 100001):
            v = k / 10.0**d
            r = ref_decimals(np.array([v, v]), 1e-9)
            assert r is not None and r <= d, (k, d, r)
            r = ref_decimals(np.array([v, v]), 1e-1)
            assert r is not None and r <= d
    assert ref_decimals(np.array([0.001234567, 123456.789]), 1e-6) >= 8
    assert ref_decimals(np.array([1e-320, 2.5]), 1e-6) is None
    assert compress_float_class(np.array([0.001234567, 123456.789, 5.5]), 1e-6) == T_C_OVER
    assert compress_float_class(np.array([1.5, nan]), 1e-6) == T_C_OVER
    assert compress_float_class(np.array([1.5e-25, 2.5e-25]), 1e-6) == T_C_UNPACK
    assert compress_float_class(np.array([1e-320, 2.5]), 1e-6) == T_C_HANG
    assert compress_float_class(np.array([1.2345678e-35, 2.5], dtype=np.float32), 1e-6) == T_C_HANG
    assert compress_float_class(np.array([12.345, -7.5, 0.0]), 1e-6) is None
    assert compress_float_class(np.array([], dtype=np.float64), 1e-6) == T_C_EMPTY
    # delta class: brute force against exact modular arithmetic of the documented algorithm
    assert delta_class(np.array([2**40, 1]), None, None) and not delta_class(np.array([5, 1]), None, None)
    assert delta_class(np.array([-128, 127], dtype=np.int8), "int32", None)
    assert not delta_class(np.array([-128, 127], dtype=np.int8), None, None)
    assert not delta_class(np.array([0, 2**32 - 1, 7], dtype=np.uint32), None, None)
    assert delta_class(np.array([1, 1, 200], dtype=np.int32), "int8", None)
    assert delta_class(np.array([5, 3], dtype=np.uint16), "int32", None)
    assert delta_class(np.array([5, 1], dtype=np.uint64), None, None) and not delta_class(np.array([1, 5], dtype=np.uint64), None, None)
    assert delta_class(np.array([1, 2**32 - 2], dtype=np.uint64), None, None) and delta_class(np.array([], dtype=np.uint8), "int8", 255)
    assert delta_class(np.array([5, 3], dtype=np.int32), "uint8", None) and not delta_class(np.array([5, 3], dtype=np.int32), "uint8", 0)
    assert delta_class(np.array([5, 6], dtype=np.uint64), "int8", None) and not delta_class(np.array([5, 3], dtype=np.uint8), "int8", None)
    # packed length estimate (size guard) against a literal packing
    assert packed_length([0, 1, 127, 128, -128, -129, 254], 1, False) == 1 + 1 + 2 + 2 + 2 + 2 + 3
    assert packed_length([255, 256, 510], 1, True) == 2 + 2 + 3
    assert int_compress_representable([0, 2**32 - 1]) and int_compress_representable([-2**31, 2**31 - 1])
    assert not int_compress_representable([-1, 2**31]) and not int_compress_representable([2**32])
    # the loop bound shim
    it = _BoundedItertools(itertools)
    try:
        for _ in it.count(5):
            pass
        raise AssertionError("no bound")
    except LoopBoundExceeded:
        pass
    assert list(it.islice(it.count(3), 2)) == [3, 4]


# ================================================================= probes (one mechanism each)
def _single(ctx, spec, x, must, judge_kind, bound=None, over=None):
    """Minimal context: one encoding, one array, the ordinary verdict logic."""
    ctx.log(spec[0], {k: repr(v) for k, v in spec[1].items()}, arr_desc(x))
    ctx.op("probe:" + spec[0])
    what = "%sEncoding(%s) on %s %s" % (spec[0], ", ".join("%s=%r" % kv for kv in spec[1].items()), x.dtype.name,
                                        [repr(float(v)) for v in x] if x.dtype.kind == "f" else x.tolist())
    st, val = roundtrip(ctx, [mk(spec)], x)

    def judge(oracle):
        if judge_kind == "int":
            judge_ints(ctx, oracle or "int_roundtrip_exact", val[1], x, what)
        else:
            judge_floats(ctx, oracle or "fixedpoint_half_step", val[1], x, bound, what, only=over)
    settle(ctx, st, val, must, what, judge)


def _probe_fixedpoint(ctx):
    """S08a: NaN / inf / |x*factor| >= 2^31 into FixedPointEncoding.encode."""
    nan, inf = float("nan"), float("inf")
    for dt in ("float64", "float32"):
        for factor, vals in ((1000, [1.5, nan]), (1000, [inf, 2.0]), (1000, [-inf]), (1000, [1e9, 1.0]),
                             (1, [2.0**31]), (1, [-2.0**31 - 1025]), (100, [-3e8, 0.25])):
            x = np.array(vals, dtype=dt)
            over, _ = fp_classify(x, factor)
            assert over.any()
            _single(ctx, ("FixedPoint", {"factor": factor, "src_type": None}), x, False, "float", fp_bound(x, factor), over)


def _probe_packing(ctx):
    """S08b: values outside int32 into IntegerPackingEncoding.encode (unchecked astype(int32))."""
    cases = [("int64", [2**32 + 5, 1], 1, None), ("int64", [-2**32 - 7, -1], 2, None), ("uint64", [2**40, 3], 1, None),
             ("uint32", [2**32 - 1, 1], 2, False), ("uint32", [2**32 - 3, 0], 1, False), ("int64", [2**31, 2], 2, False)]
    for dt, vals, bc, uns in cases:
        _single(ctx, ("IntegerPacking", {"byte_count": bc, "src_size": None, "is_unsigned": uns}), np.array(vals, dtype=dt), False, "int")


def _probe_delta(ctx):
    """Values Delta's src_type cannot hold: 64-bit values beyond 32 bit, explicit narrower src_type,
    wider src_type than the input type (value - origin wraps in the input type)."""
    cases = [("int64", [2**40, 1], None, None), ("int64", [1, 2**40], None, None), ("uint64", [1, 2**63 + 5], None, None),
             ("int32", [1, 1, 200], "int8", None), ("int8", [-128, 127], "int32", None), ("uint16", [5, 3], "int32", None),
             ("uint64", [5, 1], None, None), ("int32", [5, 3, 200], "uint8", None), ("uint64", [5, 6], "int8", None)]
    for dt, vals, src, origin in cases:
        x = np.array(vals, dtype=dt)
        assert delta_class(x, src, origin)
        _single(ctx, ("Delta", {"src_type": src, "origin": origin}), x, False, "int")


def _probe_delta_numpy_origin(ctx):
    """S86: origin handed over as a signed NumPy scalar that is wider than the unsigned data (every value representable)."""
    for dt, org in (("uint32", np.int64(7)), ("uint16", np.int64(3)), ("uint8", np.int32(1))):
        _single(ctx, ("Delta", {"src_type": None, "origin": org}), np.array([10, 12, 200], dtype=dt), True, "int")


def _probe_empty(ctx):
    """Empty arrays (row_count 0) into RunLength / Delta / IntegerPacking with omitted parameters."""
    for dt in ("int32", "uint8", "int64"):
        x = np.array([], dtype=dt)
        for spec in (("RunLength", {"src_size": None, "src_type": None}), ("Delta", {"src_type": None, "origin": None}),
                     ("IntegerPacking", {"byte_count": 1, "src_size": None, "is_unsigned": None})):
            _single(ctx, spec, x, True, "int")


def _probe_bytearray_float(ctx):
    """float64 values beyond the float32 range into ByteArrayEncoding(type=float32)."""
    for vals in ([1e300, 0.5], [-1e39], [3.5e38, 1.0]):
        x = np.array(vals, dtype=np.float64)
        spec = ("ByteArray", {"type": "float32"})
        ctx.log(spec[0], spec[1], arr_desc(x))
        what = "ByteArrayEncoding(type=float32) on float64 %s" % [repr(v) for v in vals]
        st, val = roundtrip(ctx, [mk(spec)], x)
        bound = float(np.finfo(np.float32).eps) * np.abs(x)
        settle(ctx, st, val, False, what, lambda oracle: judge_floats(ctx, oracle, val[1], x, bound, what))


def _probe_interval_nonfinite(ctx):
    nan, inf = float("nan"), float("inf")
    for vals in ([0.5, nan], [inf, 0.25], [-inf]):
        for dt in ("float64", "float32"):
            x = np.array(vals, dtype=dt)
            spec = ("IntervalQuantization", {"min": 0.0, "max": 1.0, "num_steps": 11, "src_type": None})
            ctx.log(spec[0], spec[1], arr_desc(x))
            what = "IntervalQuantizationEncoding(0.0, 1.0, 11) on %s %s" % (dt, [repr(v) for v in vals])
            st, val = roundtrip(ctx, [mk(spec)], x)
            nf = ~np.isfinite(x)
            settle(ctx, st, val, False, what, lambda oracle: judge_floats(ctx, oracle, val[1], x, 0.1001, what, only=nf))


def _probe_interval_int(ctx):
    """Integer min/max with (num_steps-1)*(max-min) >= 2^31: decode multiplies in int32."""
    for lo, hi, steps, vals in ((-180, 180, 10**7, [-180.0, 0.0, 100.0, 179.9, 180.0]), (0, 10000, 10**6, [1.0, 2500.0, 9999.0])):
        for dt in ("float64", "float32"):
            x = np.array(vals, dtype=dt)
            spec = ("IntervalQuantization", {"min": lo, "max": hi, "num_steps": steps, "src_type": None})
            ctx.log(spec[0], spec[1], arr_desc(x))
            what = "IntervalQuantizationEncoding(%d, %d, %d) on %s %s" % (lo, hi, steps, dt, vals)
            st, val = roundtrip(ctx, [mk(spec)], x)
            bound = (hi - lo) / (steps - 1) * (1 + 1e-6) + 8 * float(np.finfo(dt).eps) * (hi - lo)
            settle(ctx, st, val, True, what, lambda oracle: judge_floats(ctx, "interval_one_step", val[1], x, bound, what))


def _compress_probe(ctx, arrays, tols, expect_cls, must):
    for x in arrays:
        for tol in tols:
            cls = compress_float_class(x, tol) if x.dtype.kind == "f" else (T_C_EMPTY if len(x) == 0 else None)
            assert cls == expect_cls, (x, tol, cls)
            ctx.log("compress", {"tolerance": tol}, arr_desc(x))
            what = "compress(BinaryCIFData(%s %s), %r)" % (x.dtype.name, [repr(float(v)) for v in x] if x.dtype.kind == "f" else x.tolist(), tol)
            st, val = compress_roundtrip(ctx, pdbx.BinaryCIFData(x), tol, what)
            if st == "ok":
                try:
                    val = (val[0], pdbx.BinaryCIFData.deserialize(val[1]).array)
                except (ValueError, OverflowError, IndexError, TypeError) as ex:
                    st, val = "decode_failed", ex

            def judge(oracle):
                if x.dtype.kind == "f":
                    judge_compress_floats(ctx, val[1], x, tol, what)
                elif x.dtype.kind == "U":
                    judge_strs(ctx, "compress_exact", val[1], x, what)
                else:
                    judge_ints(ctx, "compress_exact", val[1], x, what)
            settle(ctx, st, val, must, what, judge)


def _probe_compress_overflow(ctx):
    """S09: wide dynamic range or non-finite values; compress() picks a fixed-point factor that overflows int32."""
    nan, inf = float("nan"), float("inf")
    arrays = [np.array([0.001234567, 123456.789, 5.5]), np.array([1e300, 2.5]), np.array([1.5, nan, 2.5]),
              np.array([1.5, inf, 2.5]), np.array([0.001234567, 123456.789, 5.5], dtype=np.float32)]
    _compress_probe(ctx, arrays[:2], [1e-6], T_C_OVER, False)
    _compress_probe(ctx, arrays[2:4], [1e-6, 1e-2], T_C_OVER, False)
    _compress_probe(ctx, arrays[4:], [1e-6], T_C_OVER, False)


def _probe_compress_unpackable(ctx):
    """Magnitudes below ~1e-13: the factor 10**decimals is a Python int beyond 64 bit (msgpack cannot store it)."""
    arrays = [np.array([1.5e-25, 2.5e-25, 1.5e-25] * 20), np.array([1.5e-30, 2.5e-30] * 30)]
    _compress_probe(ctx, arrays, [1e-6], T_C_UNPACK, True)


def _probe_compress_hang(ctx):
    """A non-zero value that needs more decimal places than np.round can deliver (10**d overflows the float type)."""
    arrays = [np.array([1e-320, 2.5]), np.array([1.2345678e-305, 1.0]), np.array([1.2345678e-35, 2.5], dtype=np.float32)]
    _compress_probe(ctx, arrays, [1e-6], T_C_HANG, True)


def _probe_compress_empty(ctx):
    arrays = [np.array([], dtype=np.int32), np.array([], dtype=np.float64), np.array([], dtype="U3")]
    _compress_probe(ctx, arrays, [1e-6], T_C_EMPTY, True)


def _probe_compress_pack32(ctx):
    """A long uint32 column with one value >= 2**31: compress() tries IntegerPackingEncoding (an int32 codec) on it."""
    for n, big, hi in ((70000, 2**31, 200), (70000, 3_000_000_000, 60000), (120000, 2**32 - 1, 2)):
        x = (np.arange(n, dtype=np.int64) * 7919 % hi).astype(np.uint32)
        x[5] = big
        ctx.log("compress", {"tolerance": None}, {"dtype": "uint32", "n": n, "x[5]": big, "others": "(i*7919) %% %d" % hi})
        what = "compress(BinaryCIFData(uint32[%d] with one value %d))" % (n, big)
        st, val = compress_roundtrip(ctx, pdbx.BinaryCIFData(x), None, what)
        if st == "ok":
            try:
                val = (val[0], pdbx.BinaryCIFData.deserialize(val[1]).array)
            except (ValueError, OverflowError, IndexError, TypeError) as ex:
                st, val = "decode_failed", ex
        settle(ctx, st, val, True, what, lambda oracle: judge_ints(ctx, "compress_exact", val[1], x, what))


def _probe_masked_value(ctx):
    """String view of a masked column with a masked_value longer than every stored string (both column classes)."""
    for cls in (pdbx.BinaryCIFColumn, pdbx.CIFColumn):
        col = cls(np.array(["a", "bc", "d"]), np.array([0, 2, 1], dtype=np.uint8))
        ctx.log("as_array", cls.__name__, {"masked_value": "N/A"})
        ctx.op("probe_masked_value")
        ctx.oracle("column_roundtrip")
        got = col.as_array(str, masked_value="N/A").tolist()
        if got != ["a", "N/A", "N/A"]:
            ctx.fail("column_roundtrip", "%s(['a','bc','d'], mask [0,2,1]).as_array(str, masked_value='N/A') = %r" % (cls.__name__, got))


def _probe_bigendian(ctx):
    """Big-endian int64 / uint64 / float16 arrays with representable values."""
    for dt, vals in ((">i8", [5, 1, -3]), (">u8", [5, 1]), (">f2", [1.5, 2.25])):
        x = np.array(vals, dtype=dt)
        kinds = [("ByteArray", {"type": None})]
        if x.dtype.kind != "f":
            kinds += [("RunLength", {"src_size": None, "src_type": None}), ("Delta", {"src_type": None, "origin": 0})]
        for spec in kinds:
            if x.dtype.kind == "f":
                ctx.log(spec[0], spec[1], arr_desc(x))
                what = "ByteArrayEncoding() on %s %s" % (dt, vals)
                st, val = roundtrip(ctx, [mk(spec)], x)
                settle(ctx, st, val, True, what, lambda oracle: judge_floats(ctx, "float_bytes_exact", val[1], x, 0.0, what))
            else:
                _single(ctx, spec, x, True, "int")


def _probe_compress_float32_edge(ctx):
    """S87: float32 values whose fixed-point image lies in (2^31 - 64, 2^31 - 1]: the float64 product passes an int32 check, the
    float32 product of the encoder rounds up to 2^31 and wraps to INT32_MIN (the value came back with the opposite sign)."""
    arrays = []
    for big, small in ((2147.4836, 0.000015), (21474.836, 0.00015), (214748.36, 0.0015), (2.1474836e7, 0.15), (-2147.4836, 0.000015)):
        arrays.append(np.array([big] * 40 + [small] * 24, dtype=np.float32))
    _compress_probe(ctx, arrays, [1e-6], T_C_OVER, False)


PROBES = {
    T_C_EDGE32: _probe_compress_float32_edge,
    T_BE: _probe_bigendian,
    T_FP: _probe_fixedpoint,
    T_PACK: _probe_packing,
    T_DELTA: _probe_delta,
    T_NPORIGIN: _probe_delta_numpy_origin,
    T_EMPTY: _probe_empty,
    T_BAF: _probe_bytearray_float,
    T_IQ_NF: _probe_interval_nonfinite,
    T_IQ_INT: _probe_interval_int,
    T_C_OVER: _probe_compress_overflow,
    T_C_UNPACK: _probe_compress_unpackable,
    T_C_HANG: _probe_compress_hang,
    T_C_EMPTY: _probe_compress_empty,
    T_C_PACK32: _probe_compress_pack32,
    T_MASKVAL: _probe_masked_value,
}
