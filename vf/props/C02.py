"""C02  A bond list is a set of undirected typed bonds with safe indices.

Monitor: lock-step history against a dict model {(i<=j): type}; every public
view is compared after every step; rejected calls must leave the list unchanged;
ASan/UBSan + process exit status watch the unchecked Cython loops.
"""

import numpy as np

ID = "C02"
FLAVOUR = "san"
LEVEL = "exploration"
RULE = (
    "seeded generator: constructor input (0-40 rows, duplicates, reversed pairs, in-range negatives, "
    "all BondTypes, (n,2)/(n,3), int8..uint64) followed by 1-15 operations from add/update/remove_bond/"
    "remove_bonds_to/remove_bonds/merge/concatenate/offset/remove_aromaticity/remove_bond_order/"
    "[] with int, mask, unsorted index array, stepped slice, list/copy; out-of-range strata force "
    "indices n, n+1, 2^31-1 (and < -n for index arrays).  A case is non-trivial when at least one "
    "step changed the model and at least one index was negative or out of range; distinct = distinct "
    "digest of the full (constructor, operations) log."
)
STRATA = {
    "history": (16000, 400000),
    "out_of_range": (6000, 150000),
    "construct": (4000, 60000),
}
# functions that must leave their arguments untouched (vf.core.PurityMonitor; '!' = the object itself is watched too)
PURE = [
    "biotite.structure.bonds:BondList.merge!",
    "biotite.structure.bonds:BondList.concatenate",
    "biotite.structure.bonds:BondList.__getitem__!",
    "biotite.structure.bonds:BondList.as_array!",
    "biotite.structure.bonds:BondList.as_set!",
    "biotite.structure.bonds:BondList.get_bonds!",
    "biotite.structure.bonds:BondList.get_all_bonds!",
    "biotite.structure.bonds:BondList.adjacency_matrix!",
    "biotite.structure.bonds:BondList.bond_type_matrix!",
    "biotite.structure.bonds:BondList.as_graph!",
    "biotite.structure.bonds:BondList.__eq__!",
    "biotite.structure.bonds:BondList.__contains__!",
    "biotite.structure.bonds:BondList.copy!",
    "biotite.structure.bonds:BondList.remove_bonds",
]
REQUIRED_ORACLES = ["views_vs_model", "index_error_expected", "state_unchanged_after_reject"]
ASSUMPTIONS = [
    "row order of as_array()/get_bonds() is not part of the property (compared as sets)",
    "membership (`in`) is judged for in-range non-negative pairs only",
    "bond type values outside the BondType enum are not generated (the statement speaks of bond types)",
]
MIN_CASES_PER_WORKER = 40
MANIFEST = {
    "technique": "lock-step history vs dict reference model, all public views compared after every step; ASan/UBSan build of bonds.c; process-exit monitor",
    "level_text": "Runtime monitoring: thousands of generated constructor inputs and operation histories are executed on the real BondList (ASan+UBSan build of the generated C) while a dict model runs in lock-step; every public view is compared after every step, rejected calls must leave the list unchanged, worker deaths and sanitizer reports are violations.  Held-on-what-was-observed, not a proof.",
    "level_note": "Trusts the dict model (audited on all 64 bond subsets of 4 atoms), numpy, and that the generated bonds.c in the tree corresponds to bonds.pyx (no Cython here).  Row order and padding position are not judged.  Known findings S03/S04/S22 are quarantined into probes.",
    "design_ref": "DESIGN.md section 6, C02",
}

NTYPES = 10
_INT_DTYPES = ["int8", "int16", "int32", "int64", "uint8", "uint16", "uint32", "uint64"]

struc = None
BondList = None


def setup(ctx):
    global struc, BondList
    import biotite.structure as struc_
    struc = struc_
    BondList = struc.BondList


# ------------------------------------------------------------------ model
class Model:
    def __init__(self, n, d=None):
        self.n = n
        self.d = dict(d or {})

    def copy(self):
        return Model(self.n, self.d)

    def resolve(self, i):
        if i < 0:
            i += self.n
        if i < 0 or i >= self.n:
            raise IndexError(i)
        return i

    @staticmethod
    def construct(n, rows):
        m = Model(n)
        res = []
        for r in rows:
            i, j = m.resolve(int(r[0])), m.resolve(int(r[1]))
            res.append((min(i, j), max(i, j), int(r[2]) if len(r) > 2 else 0))
        for i, j, t in res:
            m.d.setdefault((i, j), t)
        return m

    def key(self):
        return (self.n, tuple(sorted((i, j, t) for (i, j), t in self.d.items())))

    def neighbours(self, a):
        out = set()
        for (i, j), t in self.d.items():
            if i == a:
                out.add((j, t))
            elif j == a:
                out.add((i, t))
        return out

    def select(self, idx):
        """New model for atoms idx (unique, non-negative)."""
        inv = {old: new for new, old in enumerate(idx)}
        m = Model(len(idx))
        for (i, j), t in self.d.items():
            if i in inv and j in inv:
                a, b = inv[i], inv[j]
                m.d[(min(a, b), max(a, b))] = t
        return m


_NOAROM = {5: 1, 6: 2, 7: 3, 9: 0}


# ------------------------------------------------------------------ view oracle
def check_views(ctx, bl, m, deep=True):
    ctx.oracle("views_vs_model")
    n = m.n
    exp = {(i, j, t) for (i, j), t in m.d.items()}
    if bl.get_atom_count() != n:
        ctx.fail("views_vs_model", "atom count %d != model %d" % (bl.get_atom_count(), n))
    arr = bl.as_array()
    if arr.dtype != np.uint32 or arr.ndim != 2 or arr.shape[1] != 3:
        ctx.fail("canonical_form", "as_array dtype/shape %s %s" % (arr.dtype, arr.shape))
    rows = [tuple(int(x) for x in r) for r in arr]
    if len(set((r[0], r[1]) for r in rows)) != len(rows):
        ctx.fail("canonical_form", "duplicate pair in as_array", rows=rows)
    for r in rows:
        if not (r[0] <= r[1] < max(n, 1)) or (n == 0):
            ctx.fail("canonical_form", "row %r not canonical for n=%d" % (r, n))
    if set(rows) != exp:
        ctx.fail("views_vs_model", "as_array differs from model", got=sorted(rows), expected=sorted(exp))
    s = bl.as_set()
    if {tuple(int(x) for x in t) for t in s} != exp:
        ctx.fail("views_vs_model", "as_set differs from model", got=sorted(s), expected=sorted(exp))
    if bl.get_bond_count() != len(exp):
        ctx.fail("views_vs_model", "get_bond_count %d != %d" % (bl.get_bond_count(), len(exp)))
    if not deep:
        return
    allb, allt = bl.get_all_bonds()
    if allb.shape[0] != n or allt.shape != allb.shape:
        ctx.fail("views_vs_model", "get_all_bonds shape %s for n=%d" % (allb.shape, n))
    truemax = 0
    for a in range(n):
        nb = m.neighbours(a)
        b, t = bl.get_bonds(a)
        got = set(zip((int(x) for x in b), (int(x) for x in t)))
        if got != nb or len(b) != len(nb):
            if True:
                ctx.fail("views_vs_model", "get_bonds(%d) = %s, model %s" % (a, sorted(got), sorted(nb)))
        # negative form
        b2, t2 = bl.get_bonds(a - n)
        if set(zip((int(x) for x in b2), (int(x) for x in t2))) != nb:
            ctx.fail("views_vs_model", "get_bonds(%d) differs from get_bonds(%d)" % (a - n, a))
        row = allb[a]
        trow = allt[a]
        # the statement fixes the *set* of neighbours; where the -1 padding sits is not judged
        keep = row != -1
        got = set(zip((int(x) for x in row[keep]), (int(x) for x in trow[keep])))
        if got != nb or ((trow == -1) != (row == -1)).any() or ((a, a) not in m.d and int(keep.sum()) != len(nb)):
            ctx.fail("views_vs_model", "get_all_bonds row %d = %s/%s, model %s" % (a, row.tolist(), trow.tolist(), sorted(nb)))
        truemax = max(truemax, len(nb))
    if allb.shape[0] and allb.shape[1] < truemax:
        ctx.fail("views_vs_model", "get_all_bonds width %d < true maximum %d" % (allb.shape[1], truemax))
    adj = bl.adjacency_matrix()
    btm = bl.bond_type_matrix()
    eadj = np.zeros((n, n), dtype=bool)
    ebtm = np.full((n, n), -1, dtype=np.int64)
    for (i, j), t in m.d.items():
        eadj[i, j] = eadj[j, i] = True
        ebtm[i, j] = ebtm[j, i] = t
    if adj.shape != (n, n) or not np.array_equal(adj, eadj):
        ctx.fail("views_vs_model", "adjacency_matrix differs from model")
    if btm.shape != (n, n) or not np.array_equal(btm.astype(np.int64), ebtm):
        ctx.fail("views_vs_model", "bond_type_matrix differs from model")
    g = bl.as_graph()
    ge = set()
    for u, v, data in g.edges(data=True):
        ge.add((min(u, v), max(u, v), int(data["bond_type"])))
    if ge != exp:
        ctx.fail("views_vs_model", "as_graph edges differ from model", got=sorted(ge), expected=sorted(exp))
    # membership, equality
    pairs = list(m.d.keys())[:6]
    for (i, j) in pairs:
        if (i, j) not in bl or (j, i) not in bl:
            ctx.fail("views_vs_model", "(%d,%d) reported as not contained" % (i, j))
    if n >= 2:
        for i in range(min(n, 4)):
            for j in range(min(n, 4)):
                e = (min(i, j), max(i, j)) in m.d
                if ((i, j) in bl) != e:
                    ctx.fail("views_vs_model", "membership of (%d,%d) is %s, model %s" % (i, j, not e, e))
    rebuilt = BondList(n, np.array(sorted(exp), dtype=np.int64).reshape(-1, 3))
    if not (bl == rebuilt) or not (rebuilt == bl):
        ctx.fail("views_vs_model", "== against a list rebuilt from the model is False")
    if exp:
        other = dict(m.d)
        k0 = next(iter(other))
        other[k0] = (other[k0] + 1) % NTYPES
        diff = BondList(n, np.array([(i, j, t) for (i, j), t in other.items()], dtype=np.int64))
        if bl == diff:
            ctx.fail("views_vs_model", "== True against a list with one different bond type")
    if bl == BondList(n + 1, np.array(sorted(exp), dtype=np.int64).reshape(-1, 3)):
        ctx.fail("views_vs_model", "== True against a list with different atom count")


# ------------------------------------------------------------------ generators
def gen_rows(rng, n, nrows, neg=True, cols=None):
    cols = cols or (3 if rng.random() < 0.75 else 2)
    rows = []
    for _ in range(nrows):
        if rows and rng.random() < 0.25:
            r = list(rows[int(rng.integers(len(rows)))])
            if rng.random() < 0.5:
                r[0], r[1] = r[1], r[0]
            if cols == 3 and rng.random() < 0.5:
                r[2] = int(rng.integers(NTYPES))
        else:
            i, j = int(rng.integers(n)), int(rng.integers(n))
            if i == j and rng.random() < 0.85 and n > 1:
                j = (i + 1 + int(rng.integers(n - 1))) % n
            r = [i, j] + ([int(rng.integers(NTYPES))] if cols == 3 else [])
        if neg:
            for c in (0, 1):
                if rng.random() < 0.2:
                    r[c] = r[c] - n if r[c] >= 0 else r[c]
        rows.append(r)
    return rows, cols


def to_array(rng, rows, cols, n):
    if not rows:
        return None if rng.random() < 0.5 else "empty"
    a = np.array(rows, dtype=np.int64)
    lo, hi = int(a.min()), int(a.max())
    cands = []
    for dt in _INT_DTYPES:
        info = np.iinfo(dt)
        if info.min <= lo and hi <= info.max:
            cands.append(dt)
    return a.astype(str(rng.choice(cands)))


def build(ctx, rng, n=None, maxrows=40, neg=True):
    if n is None:
        n = int(rng.choice([0, 1, 2, 3, 4, 5, 6, 8, 12, 20], p=[.03, .05, .1, .12, .15, .15, .15, .1, .1, .05]))
    nrows = 0 if n == 0 else int(rng.integers(0, min(maxrows, 3 * n + 2) + 1))
    rows, cols = gen_rows(rng, n, nrows, neg) if n else ([], 3)
    arr = to_array(rng, rows, cols, n)
    if isinstance(arr, str) or arr is None:
        a = None if arr is None else np.zeros((0, cols), dtype=np.int64)
        ctx.log("BondList", n, "None" if a is None else "empty(0,%d)" % cols)
        bl = BondList(n) if a is None else BondList(n, a)
    else:
        ctx.log("BondList", n, str(arr.dtype), rows)
        bl = BondList(n, arr)
    ctx.op("construct")
    m = Model.construct(n, rows)
    return bl, m


def oob_index(rng, n, allow_low):
    hi = [n, n + 1, n + 7, 2**31 - 1]
    lo = [-n - 1, -n - 2, -2 * n - 1, -(2**31)]
    pool = hi + (lo if allow_low else [])
    return int(pool[int(rng.integers(len(pool)))])


def expect_reject(ctx, bl, m, what, fn, accepted=(IndexError,)):
    """fn must raise one of `accepted`; the list must be unchanged afterwards."""
    ctx.oracle("index_error_expected")
    try:
        res = fn()
    except accepted as e:
        ctx.exc(e)
    except (OverflowError,) as e:
        # value not representable in the C parameter type: rejected before use
        ctx.exc(e)
    else:
        ctx.fail("index_error_expected", "%s returned %r instead of raising IndexError" % (what, _short(res)))
    ctx.oracle("state_unchanged_after_reject")
    check_views(ctx, bl, m, deep=False)


def _short(x):
    r = repr(x)
    return r if len(r) < 200 else r[:200] + "..."


def gen_index(rng, n, strided_ok=True):
    """An index object selecting unique atoms; returns (index_object, list_of_old_indices, description)."""
    kind = rng.choice(["mask", "array", "slice", "list", "negarray"])
    if kind == "mask":
        mask = rng.random(n) < rng.choice([0.3, 0.6, 0.9])
        if strided_ok and rng.random() < 0.3:
            big = np.zeros(2 * n, dtype=bool)
            big[::2] = mask
            obj = big[::2]            # non-contiguous view
            desc = ("mask_strided", mask.tolist())
        else:
            obj, desc = mask, ("mask", mask.tolist())
        return obj, [int(i) for i in np.nonzero(mask)[0]], desc
    if kind in ("array", "list", "negarray"):
        k = int(rng.integers(0, n + 1))
        idx = rng.permutation(n)[:k]
        if rng.random() < 0.4:
            idx = np.sort(idx)
        old = [int(i) for i in idx]
        if kind == "list":
            return [int(i) for i in idx], old, ("list", old)
        if kind == "negarray":
            sign = rng.random(k) < 0.5
            arr = np.where(sign, idx - n, idx).astype(np.int64)
            dt = str(rng.choice(["int16", "int32", "int64"]))
            return arr.astype(dt), old, ("array", dt, arr.tolist())
        dt = str(rng.choice([d for d in _INT_DTYPES if np.iinfo(d).max >= max(n, 1)]))
        return idx.astype(dt), old, ("array", dt, old)
    # slice
    def b():
        return None if rng.random() < 0.3 else int(rng.integers(-n - 2, n + 3))
    step = int(rng.choice([1, 1, 2, 3, -1, -2])) if rng.random() < 0.7 else None
    sl = slice(b(), b(), step)
    old = list(range(n))[sl]
    return sl, old, ("slice", sl.start, sl.stop, sl.step)


def step(ctx, rng, pool, allow_oob):
    """One operation on pool[0] (a (BondList, Model) pair); returns True if the model changed."""
    bl, m = pool[0]
    n = m.n
    ops = ["add", "update", "remove_bond", "remove_bonds_to", "remove_bonds", "merge", "concatenate",
           "offset", "remove_aromaticity", "remove_bond_order", "getitem", "getitem_int", "copy", "add"]
    op = str(rng.choice(ops))
    before = m.key()

    def idx():
        i = int(rng.integers(n))
        if rng.random() < 0.35:
            ctx.mark_nontrivial()
            return i - n
        return i

    if allow_oob and rng.random() < 0.5 and op in ("add", "update", "remove_bond", "remove_bonds_to", "getitem_int", "getitem"):
        low_ok = ctx.allowed("scalar_index_below_minus_n")
        ctx.mark_nontrivial()
        if op in ("add", "update"):
            bad = oob_index(rng, n, low_ok)
            good = idx() if n else 0
            args = (bad, good) if rng.random() < 0.5 else (good, bad)
            t = int(rng.integers(NTYPES))
            ctx.log("add_bond!", args, t)
            ctx.op("add_bond_oob")
            expect_reject(ctx, bl, m, "add_bond%r" % (args,), lambda: bl.add_bond(args[0], args[1], t))
        elif op == "remove_bond":
            bad = oob_index(rng, n, low_ok)
            good = idx() if n else 0
            args = (bad, good) if rng.random() < 0.5 else (good, bad)
            ctx.log("remove_bond!", args)
            ctx.op("remove_bond_oob")
            expect_reject(ctx, bl, m, "remove_bond%r" % (args,), lambda: bl.remove_bond(*args))
        elif op == "remove_bonds_to":
            bad = oob_index(rng, n, low_ok)
            ctx.log("remove_bonds_to!", bad)
            ctx.op("remove_bonds_to_oob")
            expect_reject(ctx, bl, m, "remove_bonds_to(%d)" % bad, lambda: bl.remove_bonds_to(bad))
        elif op == "getitem_int":
            bad = oob_index(rng, n, low_ok)
            ctx.log("get_bonds!", bad)
            ctx.op("get_bonds_oob")
            if rng.random() < 0.5:
                expect_reject(ctx, bl, m, "get_bonds(%d)" % bad, lambda: bl.get_bonds(bad))
            else:
                expect_reject(ctx, bl, m, "[%d]" % bad, lambda: bl[bad])
        else:
            k = int(rng.integers(1, 4))
            arr = [int(rng.integers(n)) if n else 0 for _ in range(k)]
            arr[int(rng.integers(k))] = oob_index(rng, n, True)   # the array path validates both sides itself
            arr = list(dict.fromkeys(arr))
            dt = "int64"
            a = np.array(arr, dtype=dt)
            ctx.log("getitem!", dt, arr)
            ctx.op("getitem_array_oob")
            expect_reject(ctx, bl, m, "[%r]" % arr, lambda: bl[a])
        return False

    if op in ("add", "update") and n > 0:
        if op == "update" and m.d:
            i, j = list(m.d.keys())[int(rng.integers(len(m.d)))]
            if rng.random() < 0.5:
                i, j = j, i
            if rng.random() < 0.3:
                i -= n
        else:
            i, j = idx(), idx()
        t = int(rng.integers(NTYPES))
        use_enum = rng.random() < 0.3
        ctx.log("add_bond", i, j, t)
        ctx.op("add_bond")
        bl.add_bond(i, j, struc.BondType(t) if use_enum else t)
        a, b = m.resolve(i), m.resolve(j)
        m.d[(min(a, b), max(a, b))] = t
    elif op == "remove_bond" and n > 0:
        if m.d and rng.random() < 0.7:
            i, j = list(m.d.keys())[int(rng.integers(len(m.d)))]
            if rng.random() < 0.5:
                i, j = j, i
            if rng.random() < 0.3:
                j -= n
        else:
            i, j = idx(), idx()
        ctx.log("remove_bond", i, j)
        ctx.op("remove_bond")
        bl.remove_bond(i, j)
        a, b = m.resolve(i), m.resolve(j)
        m.d.pop((min(a, b), max(a, b)), None)
    elif op == "remove_bonds_to" and n > 0:
        i = idx()
        ctx.log("remove_bonds_to", i)
        ctx.op("remove_bonds_to")
        bl.remove_bonds_to(i)
        a = m.resolve(i)
        for k in [k for k in m.d if a in k]:
            del m.d[k]
    elif op == "remove_bonds":
        obl, om = build(ctx, rng, n=n, maxrows=8)
        if m.d and rng.random() < 0.6:
            i, j = list(m.d.keys())[int(rng.integers(len(m.d)))]
            obl.add_bond(i, j, 3)
            om.d[(i, j)] = 3
        ctx.log("remove_bonds(prev)")
        ctx.op("remove_bonds")
        bl.remove_bonds(obl)
        for k in om.d:
            m.d.pop(k, None)
        check_views(ctx, obl, om, deep=False)
    elif op == "merge":
        obl, om = build(ctx, rng, maxrows=10)
        ctx.log("merge(prev)")
        ctx.op("merge")
        nb = bl.merge(obl)
        nm = Model(max(m.n, om.n), om.d)
        for k, t in m.d.items():
            nm.d.setdefault(k, t)
        check_views(ctx, bl, m, deep=False)      # operands untouched
        check_views(ctx, obl, om, deep=False)
        pool[0] = (nb, nm)
    elif op == "concatenate":
        k = int(rng.integers(0, 3))
        others = [build(ctx, rng, maxrows=8) for _ in range(k)]
        lists = [bl] + [o[0] for o in others]
        models = [m] + [o[1] for o in others]
        pos = int(rng.integers(len(lists)))
        lists.insert(0, lists.pop(pos)); models.insert(0, models.pop(pos))
        how = "+" if len(lists) == 2 and rng.random() < 0.5 else "concatenate"
        ctx.log(how, len(lists), pos)
        ctx.op(how)
        if how == "+":
            nb = lists[0] + lists[1]
        else:
            nb = BondList.concatenate(lists if rng.random() < 0.5 else iter(lists))
        nm, off = Model(0), 0
        for mm in models:
            for (i, j), t in mm.d.items():
                nm.d[(i + off, j + off)] = t
            off += mm.n
        nm.n = off
        for l_, m_ in zip(lists, models):
            check_views(ctx, l_, m_, deep=False)
        pool[0] = (nb, nm)
    elif op == "offset":
        k = int(rng.choice([0, 1, 2, 5])) if rng.random() < 0.8 else -int(rng.integers(1, 4))
        ctx.log("offset_indices", k)
        ctx.op("offset_indices")
        if k < 0:
            ctx.oracle("offset_negative_rejected")
            try:
                bl.offset_indices(k)
            except ValueError as e:
                ctx.exc(e)
            else:
                ctx.fail("offset_negative_rejected", "offset_indices(%d) accepted" % k)
            check_views(ctx, bl, m, deep=False)
        else:
            bl.offset_indices(k)
            m.d = {(i + k, j + k): t for (i, j), t in m.d.items()}
            m.n += k
    elif op == "remove_aromaticity":
        ctx.log("remove_aromaticity"); ctx.op("remove_aromaticity")
        bl.remove_aromaticity()
        m.d = {k: _NOAROM.get(t, t) for k, t in m.d.items()}
    elif op == "remove_bond_order":
        ctx.log("remove_bond_order"); ctx.op("remove_bond_order")
        bl.remove_bond_order()
        m.d = {k: 0 for k in m.d}
    elif op == "getitem" and n >= 2 and rng.random() < 0.15:
        # an index array / list that names an atom twice: the library documents this as not supported (NotImplementedError);
        # what may never happen is a list that silently connects other atoms
        k = int(rng.integers(2, min(n, 6) + 1))
        idxs = [int(v) for v in rng.integers(0, n, size=k)]
        dup = idxs[int(rng.integers(k))]
        pos = int(rng.integers(k))
        idxs[pos] = dup if idxs.count(dup) < 2 else idxs[pos]
        if len(set(idxs)) == len(idxs):
            idxs[-1] = idxs[0]
        if rng.random() < 0.4:
            idxs = [v - n if rng.random() < 0.5 else v for v in idxs]
        obj = idxs if rng.random() < 0.4 else np.array(idxs, dtype=str(rng.choice(["int64", "int32", "uint8" if min(idxs) >= 0 else "int16"])))
        ctx.log("getitem_duplicates", idxs)
        ctx.op("getitem_duplicate_indices")
        ctx.oracle("duplicate_index_refused_or_exact")
        try:
            nb = bl[obj]
        except NotImplementedError as e:
            ctx.exc(e)
        else:
            res = [v % n for v in idxs]
            want = set()
            for a_ in range(len(res)):
                for b_ in range(a_ + 1, len(res)):
                    t_ = m.d.get((min(res[a_], res[b_]), max(res[a_], res[b_])))
                    if t_ is not None and res[a_] != res[b_]:
                        want.add((a_, b_, t_))
            got = {(int(r_[0]), int(r_[1]), int(r_[2])) for r_ in nb.as_array()}
            if nb.get_atom_count() != len(res) or got != want:
                ctx.fail("duplicate_index_refused_or_exact", "BondList[%s] (an atom named twice) was accepted and returned %s on %d atoms; "
                         "the selection numpy semantics give is %s" % (idxs, sorted(got), nb.get_atom_count(), sorted(want)))
        check_views(ctx, bl, m, deep=False)
    elif op == "getitem":
        obj, old, desc = gen_index(rng, n, ctx.allowed("noncontiguous_mask"))
        ctx.log("getitem", desc)
        ctx.op("getitem_" + desc[0])
        if desc[0] in ("array", "slice") and any(isinstance(x, int) and x < 0 for x in (desc[-1] if desc[0] == "array" else desc[1:])):
            ctx.mark_nontrivial()
        nb = bl[obj]
        nm = m.select(old)
        check_views(ctx, bl, m, deep=False)      # source untouched
        pool[0] = (nb, nm)
    elif op == "getitem_int" and n > 0:
        i = idx()
        ctx.log("getitem_int", i); ctx.op("getitem_int")
        ii = i
        if rng.random() < 0.4:
            # the same position as a NumPy integer scalar (an element of an index array, rng.integers(...))
            kinds = ["int64", "int32", "intp"] + (["uint8", "uint16"] if 0 <= i < 256 else []) + (["int8"] if -128 <= i < 128 else [])
            ii = np.dtype(str(rng.choice(kinds))).type(i)
            ctx.op("getitem_int_numpy_scalar")
        b, t = bl[ii]
        if set(zip((int(x) for x in b), (int(x) for x in t))) != m.neighbours(m.resolve(i)):
            ctx.fail("views_vs_model", "bl[%d] differs from model neighbours" % i)
    elif op == "copy":
        ctx.log("copy"); ctx.op("copy")
        c = bl.copy()
        cm = m.copy()
        if n > 0:
            i, j = int(rng.integers(n)), int(rng.integers(n))
            c.add_bond(i, j, 4)
            cm.d[(min(i, j), max(i, j))] = 4
            if cm.d and rng.random() < 0.5:
                c.remove_bonds_to(i)
                for k in [k for k in cm.d if i in k]:
                    del cm.d[k]
        ctx.oracle("copy_independent")
        check_views(ctx, bl, m, deep=False)
        check_views(ctx, c, cm, deep=False)
        if rng.random() < 0.5:
            pool[0] = (c, cm)
    changed = pool[0][1].key() != before
    return changed


def run_case(stratum, rng, ctx):
    if stratum == "construct":
        return case_construct(rng, ctx)
    bl, m = build(ctx, rng)
    pool = [(bl, m)]
    check_views(ctx, bl, m)
    nsteps = int(rng.integers(1, 16 if ctx.tier == "quick" else 31))
    changed = False
    for _ in range(nsteps):
        ch = step(ctx, rng, pool, allow_oob=(stratum == "out_of_range"))
        changed = changed or ch
        b, mm = pool[0]
        check_views(ctx, b, mm, deep=(mm.n <= 12))
        ctx.state(mm.key())
    if not changed:
        ctx._nontrivial_flag = False


def case_many_atoms(rng, ctx):
    """Atom counts beyond 65536 (where i * n + j no longer fits 32 bits): the constructor and merge() keep exactly the
    distinct pairs (first type wins), compared with a NumPy set computation instead of the Python model."""
    n = int(rng.choice([65537, 70000, 131071, 200003]))
    kind = str(rng.choice(["chain", "chain", "random", "colliding"]))
    if kind == "chain":
        a = np.stack([np.arange(n - 1), np.arange(1, n)], axis=1)
    elif kind == "random":
        a = rng.integers(0, n, size=(20000, 2))
        a = a[a[:, 0] != a[:, 1]]
    else:
        # pairs whose i * n + j coincide modulo 2**32 with another pair of the list
        i1 = rng.integers(0, n - 2, size=3000)
        j1 = rng.integers(0, n, size=3000)
        k = (i1.astype(np.int64) * n + j1 + 2**32)
        i2, j2 = k // n, k % n
        ok = (i2 < n) & (i2 != j2) & (i1 != j1)
        a = np.concatenate([np.stack([i1[ok], j1[ok]], axis=1), np.stack([i2[ok], j2[ok]], axis=1)])
        if len(a) == 0:
            a = np.array([[0, 1]])
    types = rng.integers(0, 7, size=len(a))
    arr = np.concatenate([a, types[:, None]], axis=1).astype(np.int64)
    if rng.random() < 0.3:
        arr = arr[rng.permutation(len(arr))]
    ctx.log("BondList(many atoms)", n, kind, int(len(arr)))
    ctx.op("construct_many_atoms_" + kind)
    ctx.mark_nontrivial()
    lo, hi = np.minimum(arr[:, 0], arr[:, 1]), np.maximum(arr[:, 0], arr[:, 1])
    key = lo.astype(np.int64) * n + hi
    _, first = np.unique(key, return_index=True)
    exp = {(int(lo[f]), int(hi[f])): int(arr[f, 2]) for f in first}
    half = len(arr) // 2
    for how in ("construct", "merge"):
        if how == "construct":
            bl = BondList(n, arr)
        else:
            bl = BondList(n, arr[:half]).merge(BondList(n, arr[half:]))
            # merge(): the type of the argument wins for a pair present in both
            first_half = {}
            for r_ in arr[:half]:
                first_half.setdefault((int(min(r_[0], r_[1])), int(max(r_[0], r_[1]))), int(r_[2]))
            second_half = {}
            for r_ in arr[half:]:
                second_half.setdefault((int(min(r_[0], r_[1])), int(max(r_[0], r_[1]))), int(r_[2]))
            exp_m = dict(first_half)
            exp_m.update(second_half)
        want = exp if how == "construct" else exp_m
        got = bl.as_array()
        ctx.oracle("views_vs_model")
        gd = {(int(r_[0]), int(r_[1])): int(r_[2]) for r_ in got}
        if bl.get_atom_count() != n or len(got) != len(gd) or gd != want:
            missing = [k_ for k_ in want if k_ not in gd][:5]
            ctx.fail("views_vs_model", "%s of %d bonds over %d atoms (%s): %d bonds kept, %d distinct pairs expected (missing e.g. %s)"
                     % (how, len(arr), n, kind, len(got), len(want), missing))
        nb, _ = bl.get_bonds(int(arr[0, 0]))
        want_nb = sorted({b_ if a_ == int(arr[0, 0]) else a_ for (a_, b_) in want if int(arr[0, 0]) in (a_, b_)})
        if sorted(int(v) for v in nb) != want_nb:
            ctx.fail("views_vs_model", "get_bonds(%d) on %d atoms: %s, expected %s" % (int(arr[0, 0]), n, sorted(int(v) for v in nb)[:10], want_nb[:10]))
    # boolean mask / slice selection that removes more than 65535 atoms in front of kept, bonded atoms
    bl = BondList(n, arr)
    full = bl.as_array().astype(np.int64)
    mask = np.ones(n, dtype=bool)
    cut = 65536 if n <= 65538 else int(rng.integers(65536, n - 1))
    mask[:cut] = rng.random(cut) < 0.02
    if rng.random() < 0.5:
        mask[cut:] = rng.random(n - cut) < 0.9
    newidx = np.cumsum(mask) - 1
    keep = mask[full[:, 0]] & mask[full[:, 1]]
    want_sel = {(int(newidx[a_]), int(newidx[b_])): int(t_) for a_, b_, t_ in full[keep]}
    for form in ("mask", "slice"):
        ctx.op("getitem_many_atoms_" + form)
        ctx.oracle("views_vs_model")
        if form == "mask":
            sub, wsel, cnt = bl[mask], want_sel, int(mask.sum())
        else:
            sub = bl[cut:]
            k2 = (full[:, 0] >= cut) & (full[:, 1] >= cut)
            wsel, cnt = {(int(a_ - cut), int(b_ - cut)): int(t_) for a_, b_, t_ in full[k2]}, n - cut
        gs = {(int(r_[0]), int(r_[1])): int(r_[2]) for r_ in sub.as_array()}
        if sub.get_atom_count() != cnt or gs != wsel:
            bad = [k_ for k_ in wsel if k_ not in gs][:4] + [k_ for k_ in gs if k_ not in wsel][:4]
            ctx.fail("views_vs_model", "BondList[%s] over %d atoms (%d kept, first %d mostly removed): %d bonds, expected %d (e.g. %s)"
                     % (form, n, cnt, cut, len(gs), len(wsel), bad))
    ctx.state(("many_atoms", kind, n))


def case_hub(rng, ctx):
    """One atom with 255..600 bonds (the per-atom bond count passes 8 bits; it sizes the buffers of get_bonds and
    get_all_bonds), built at once or bond by bond, then partly removed again."""
    d = int(rng.choice([255, 256, 257, 300, 511, 512, 600]))
    n = d + int(rng.integers(1, 60))
    hub = int(rng.integers(n))
    others = [i for i in range(n) if i != hub]
    part = [int(x) for x in rng.permutation(others)[:d]]
    rows = [(hub, p_, int(rng.integers(0, 7))) if rng.random() < 0.5 else (p_, hub, int(rng.integers(0, 7))) for p_ in part]
    rows += [(int(a_), int(b_), 1) for a_, b_ in rng.integers(0, n, size=(20, 2)) if a_ != b_]
    ctx.log("BondList(hub)", n, hub, d)
    ctx.op("construct_hub")
    ctx.mark_nontrivial()
    m = Model.construct(n, rows)
    if rng.random() < 0.5:
        bl = BondList(n, np.array(rows, dtype=np.int64))
    else:
        bl = BondList(n)
        for a_, b_, t_ in rows:
            bl.add_bond(a_, b_, t_)
        m = Model(n)
        for a_, b_, t_ in rows:
            m.d[(min(a_, b_), max(a_, b_))] = t_          # add_bond: the later type replaces the earlier one
    check_views(ctx, bl, m)
    # remove bonds of the hub until fewer than 256 are left: the cached maximum must follow
    for p_ in part[: int(rng.integers(1, d - 200))]:
        bl.remove_bond(hub, p_)
        m.d.pop((min(hub, p_), max(hub, p_)), None)
    check_views(ctx, bl, m)
    ctx.state(("hub", d, n > 256))


def case_construct(rng, ctx):
    """Constructor inputs incl. invalid ones."""
    if ctx.index % 100 == 7:
        return case_many_atoms(rng, ctx)
    if ctx.index % 100 == 57:
        return case_hub(rng, ctx)
    n = int(rng.integers(0, 12))
    kind = str(rng.choice(["valid", "oob_high", "oob_low", "bad_shape", "bad_type", "valid"]))
    ctx.op("construct_" + kind)
    if kind == "valid" and rng.random() < 0.1:
        # "no bonds" given as an empty array of any shape numpy produces for it, (the constructor takes ndarrays only)
        empty = [np.array([]), np.zeros((0, 2), dtype=np.int64), np.zeros((0, 3), dtype=np.int64), np.array([], dtype=np.uint32)][int(rng.integers(4))]
        ctx.log("BondList(empty input)", n, str(np.shape(empty)))
        ctx.op("construct_empty_input")
        bl = BondList(n, empty)
        check_views(ctx, bl, Model(n, {}))
        ctx.mark_nontrivial()
        return
    if kind == "valid":
        bl, m = build(ctx, rng, n=n)
        check_views(ctx, bl, m)
        ctx.state(m.key())
        ctx.mark_nontrivial(len(m.d) > 0)
        return
    if kind in ("oob_high", "oob_low"):
        nrows = int(rng.integers(1, 6))
        rows, cols = gen_rows(rng, max(n, 1), nrows, neg=True) if n else ([[0, 0, 1]], 3)
        r = int(rng.integers(len(rows)))
        c = int(rng.integers(2))
        bad = oob_index(rng, n, True)
        while kind == "oob_high" and bad < 0 or kind == "oob_low" and bad >= 0:
            bad = oob_index(rng, n, True)
        rows[r][c] = bad
        a = np.array(rows, dtype=np.int64)
        ctx.log("BondList!", n, rows)
        ctx.mark_nontrivial()
        ctx.oracle("index_error_expected")
        try:
            bl = BondList(n, a)
        except IndexError as e:
            ctx.exc(e)
        else:
            ctx.fail("index_error_expected", "constructor accepted index %d for %d atoms: %s" % (bad, n, bl.as_array().tolist()))
        return
    if kind == "bad_shape":
        shape = [(3,), (2, 1), (2, 4), (2, 2, 2)][int(rng.integers(4))]
        ctx.log("BondList!shape", n, shape)
        ctx.oracle("bad_shape_rejected")
        try:
            BondList(max(n, 2), np.zeros(shape, dtype=np.int64))
        except (ValueError, IndexError, TypeError) as e:
            ctx.exc(e)
        else:
            ctx.fail("bad_shape_rejected", "constructor accepted array of shape %s" % (shape,))
        ctx.mark_nontrivial()
        return
    if kind == "bad_type":
        t = int(rng.choice([10, 11, 255, 1000]))
        ctx.log("BondList!type", t)
        ctx.oracle("bad_type_rejected")
        try:
            BondList(3, np.array([[0, 1, t]]))
        except ValueError as e:
            ctx.exc(e)
        else:
            ctx.fail("bad_type_rejected", "constructor accepted bond type %d" % t)
        bl = BondList(3, np.array([[0, 1, 1]]))
        try:
            bl.add_bond(1, 2, t)
        except ValueError as e:
            ctx.exc(e)
        else:
            ctx.fail("bad_type_rejected", "add_bond accepted bond type %d" % t)
        check_views(ctx, bl, Model(3, {(0, 1): 1}))
        ctx.mark_nontrivial()


def case_mask_shapes(rng, ctx):
    """Boolean masks of wrong length / other index objects numpy would refuse:
    judged by 'raises or equals the model' plus sanitizer and exit status."""
    bl, m = build(ctx, rng, n=int(rng.integers(1, 12)))
    n = m.n
    kind = str(rng.choice(["short", "long", "empty", "ok_strided", "2d"]))
    if kind == "ok_strided" and not ctx.allowed("noncontiguous_mask"):
        kind = "short"
    ctx.op("mask_" + kind)
    if kind == "short":
        mask = rng.random(max(0, n - int(rng.integers(1, n + 1)))) < 0.7
    elif kind == "long":
        mask = rng.random(n + int(rng.integers(1, 5))) < 0.7
    elif kind == "empty":
        mask = np.zeros(0, dtype=bool)
    elif kind == "2d":
        mask = rng.random((n, 2)) < 0.5
    else:
        mask = (rng.random(3 * n) < 0.6)[::3]
    ctx.log("getitem_mask", kind, mask.tolist())
    ctx.mark_nontrivial()
    ctx.oracle("wrong_mask_rejected_or_exact")
    try:
        res = bl[mask]
    except (IndexError, ValueError, TypeError) as e:
        ctx.exc(e)
        if kind == "ok_strided":
            ctx.fail("wrong_mask_rejected_or_exact", "valid strided mask rejected: %r" % e)
    else:
        if kind == "ok_strided":
            check_views(ctx, res, m.select([int(i) for i in np.nonzero(mask)[0]]))
        elif mask.ndim == 1 and len(mask) != n:
            # numpy itself refuses a boolean index of the wrong length; a result
            # is acceptable only if it is what the model gives for the mask
            # padded/truncated to n - anything else is silent corruption.
            fixed = np.zeros(n, dtype=bool)
            k = min(n, len(mask))
            fixed[:k] = mask[:k]
            try:
                check_views(ctx, res, m.select([int(i) for i in np.nonzero(fixed)[0]]), deep=False)
                ctx.note("wrong_length_mask_accepted_consistently")
            except Exception:
                ctx.fail("wrong_mask_rejected_or_exact",
                         "mask of length %d on %d atoms neither rejected nor consistent: %s" % (len(mask), n, res.as_array().tolist()))
    ctx.oracle("state_unchanged_after_reject")
    check_views(ctx, bl, m, deep=False)


def selftest(ctx):
    """Oracle audit: all 2^6 bond subsets of a 4-atom list, model vs literal expectation."""
    pairs = [(0, 1), (0, 2), (0, 3), (1, 2), (1, 3), (2, 3)]
    for bits in range(64):
        rows = [[j, i, 1 + (k % 3)] for k, (i, j) in enumerate(pairs) if bits >> k & 1]
        m = Model.construct(4, rows)
        assert m.key() == (4, tuple(sorted((i, j, 1 + (k % 3)) for k, (i, j) in enumerate(pairs) if bits >> k & 1)))
        sel = m.select([3, 1])
        exp = {(0, 1): m.d[(1, 3)]} if (1, 3) in m.d else {}
        assert sel.d == exp and sel.n == 2
    m = Model.construct(3, [[-1, 0, 2], [0, 2, 5], [1, -2, 7]])
    assert m.d == {(0, 2): 2, (1, 1): 7}


# ------------------------------------------------------------------ probes
def _probe_scalar_low(ctx):
    """S03 trigger class: scalar index below -n."""
    cases = []
    for n in (1, 3, 5, 9):
        for bad in (-n - 1, -n - 2, -2 * n, -(2**31)):
            cases.append((n, bad))
    for n, bad in cases:
        rows = [[i, i + 1, 1] for i in range(n - 1)]
        bl = BondList(n, np.array(rows, dtype=np.int64).reshape(-1, 3))
        m = Model.construct(n, rows)
        for name, fn in (
            ("get_bonds", lambda: bl.get_bonds(bad)),
            ("getitem", lambda: bl[bad]),
            ("remove_bond", lambda: bl.remove_bond(bad, 0)),
            ("remove_bonds_to", lambda: bl.remove_bonds_to(bad)),
            ("add_bond", lambda: bl.add_bond(bad, 0, 1)),
        ):
            ctx.log(name, n, bad)
            ctx.op("probe_" + name)
            expect_reject(ctx, bl, m, "%s(%d) on %d atoms" % (name, bad, n), fn)
            # full integrity check of the list
            check_views(ctx, bl, m)


def _probe_strided_mask(ctx):
    """Boolean masks that are non-contiguous views (numpy accepts them as an index)."""
    for n in (2, 5, 9):
        rows = [[i, i + 1, 1 + i % 3] for i in range(n - 1)]
        bl = BondList(n, np.array(rows, dtype=np.int64))
        m = Model.construct(n, rows)
        base = np.zeros(2 * n, dtype=bool)
        base[::2] = np.arange(n) % 3 != 1
        mask = base[::2]
        ctx.log("getitem_mask_strided", n, mask.tolist())
        ctx.op("probe_strided_mask")
        ctx.oracle("index_object_accepted")
        try:
            res = bl[mask]
        except Exception as e:
            ctx.fail("index_object_accepted", "non-contiguous boolean mask refused: %s: %s" % (type(e).__name__, e))
        check_views(ctx, res, m.select([int(i) for i in np.nonzero(mask)[0]]))


def _probe_narrow_index_dtype(ctx):
    """Index arrays of a narrow integer type with negative entries on a list with more atoms than that type can count."""
    for n, dt, vals in ((132, "int8", [27, -114, -6, 3, -51]), (130, "int8", [-1, 0]), (40000, "int16", [-39000, 5, -1])):
        rows = [[i, i + 1, 1 + i % 3] for i in range(0, min(n, 300) - 1)]
        bl = BondList(n, np.array(rows, dtype=np.int64))
        idx = np.array(vals, dtype=dt)
        ctx.log("getitem_narrow_dtype", n, dt, vals)
        ctx.op("probe_narrow_index_dtype")
        ctx.oracle("index_object_accepted")
        try:
            res = bl[idx]
        except Exception as e:
            ctx.fail("index_object_accepted", "%s index array %s refused for %d atoms: %s: %s" % (dt, vals, n, type(e).__name__, e))
        pos = {v % n: k for k, v in enumerate(vals)}
        want = {(min(pos[a], pos[b]), max(pos[a], pos[b]), t) for a, b, t in rows if a in pos and b in pos}
        got = {(int(a), int(b), int(t)) for a, b, t in res.as_array()}
        if res.get_atom_count() != len(vals) or got != want:
            ctx.fail("views_vs_model", "BondList[%s index array]: %s, expected %s" % (dt, sorted(got), sorted(want)))


def _probe_wrong_length_mask(ctx):
    """S04 trigger class: boolean masks whose length is not the atom count."""
    rng = np.random.default_rng(4)
    for _ in range(40):
        case_mask_shapes(rng, ctx)


PROBES = {
    "scalar_index_below_minus_n": _probe_scalar_low,
    "wrong_length_mask": _probe_wrong_length_mask,
    "noncontiguous_mask": _probe_strided_mask,
    "narrow_index_dtype_negative": _probe_narrow_index_dtype,
}
