"""C14  Cell-list neighbour search is exact.

Monitor: every query of every generated CellList (get_atoms as padded index
arrays and as masks, scalar and per-query radii, single and batched queries,
get_atoms_in_cells, create_adjacency_matrix; with/without selection; open and
periodic with orthorhombic / triclinic boxes) is compared with a brute-force
float64 computation (vf/models/c14_ref.py; minimum image over 125 images when
periodic).  Memberships within rounding of the radius are undecided (counted,
accepted either way).  ASan/UBSan and the process exit status watch the
unchecked Cython loops and the malloc'ed cells.
"""

import warnings

import numpy as np

from vf.models import c14_ref as ref
from vf.models.c14_ref import EPS32, World

ID = "C14"
FLAVOUR = "san"
LEVEL = "exploration"
RULE = (
    "seeded generator: 1-200 atoms (uniform, clustered, collinear, coplanar, duplicated, two-scale, single; "
    "lattice whose spacing equals the cell size), coordinate scale 1e-3..1e5 with optional far offset, input as "
    "float64/float32 ndarray or AtomArray, selection none/all/random/empty (plus NaN atoms outside the selection), "
    "cell size 1e-2..1e3 x extent (cell count capped), radii 0 / tiny / sub-cell / exactly k cells / several cells / "
    "> extent / exactly an atom distance, scalar (float, int, numpy scalar) and per-query arrays "
    "(float64/float32/int), 1-8 queries per batch (inside, at an atom, near an atom, on the bounding box, on a cell "
    "border +-1 ulp, just outside, 1..1e4 extents outside, NaN/inf, float32/strided arrays), each batch asked as "
    "index array, as mask, per-query radii, single (3,) form, get_atoms_in_cells (scalar/array cell radius) and "
    "create_adjacency_matrix; periodic strata: orthorhombic and triclinic boxes (angles 60-120, 20% 50-130, 20% "
    "rotated, float64/float32/AtomArray box), atoms and queries inside/outside/far outside/on faces (orthorhombic "
    "only)/at images, radii below half the smallest box height (unique image) or up to 1.5 box diagonals; "
    "radius/cell_size <= 60 and candidate buffer <= 2^22 (thorough 2^24) ints in the exactness strata; stratum large_ratio: one-cell "
    "and one-atom-per-cell lists with cell radii up to 12000 where crash/sanitizer/MemoryError/ValueError matter. "
    "A case is non-trivial when at least one membership was decided IN and one decided OUT; distinct = distinct "
    "digest of the logged inputs."
)
STRATA = {
    "open": (6000, 120000),
    "lattice_border": (2500, 45000),
    "periodic_ortho": (2500, 50000),
    "periodic_triclinic": (2500, 50000),
    "adjacency": (1200, 25000),
    "large_ratio": (300, 10000),
}
# functions that must leave their arguments untouched (vf.core.PurityMonitor; '!' = the object itself is watched too)
PURE = [
    "biotite.structure.box:repeat_box_coord",
    "biotite.structure.box:move_inside_box",
]
REQUIRED_ORACLES = ["empty_query_empty_answer", 
    "get_atoms_exact", "mask_equals_index", "radii_array_exact", "single_query_exact",
    "cells_superset", "adjacency_equals_threshold", "adjacency_symmetric",
    "periodic_min_image", "nonfinite_query_empty", "result_form", "large_ratio_no_crash",
]
ANCHORS = [
    "biotite.structure.box:repeat_box_coord",
    "biotite.structure.box:move_inside_box",
    "biotite.structure.atoms:coord",
]
ASSUMPTIONS = [
    "CellList is a Cython extension type: its entry points (__cinit__, get_atoms, get_atoms_in_cells, "
    "create_adjacency_matrix) cannot be counted with sys.monitoring; calls are counted with ctx.op at the call site; "
    "the pure-Python helpers it calls (atoms.coord, box.move_inside_box, box.repeat_box_coord) are reach-counted",
    "reference = float64 brute force on the values handed to biotite; a membership whose float64 distance is within "
    "4*eps32*(|p|+|q|+r) + 2*sqrt(tiny32) of the radius is undecided (accepted either way, counted; the absolute term is the "
    "underflow threshold of a squared float32 distance, 2.2e-19); distance exactly 0 is decided IN",
    "get_atoms_in_cells: 'corresponding distance' = cell_radius*cell_size (Euclidean); the band additionally "
    "contains the largest atom norm because the cell origin enters the index arithmetic; only the superset "
    "direction is judged (plus: indices valid, inside the selection, nothing for non-finite queries)",
    "periodic: minimum over the 125 images i,j,k in -2..2 of the wrapped positions; band = "
    "8*eps32*(kappa*(|p|+|q|) + 2*(|a|+|b|+|c|) + r) with kappa = cond(box) when the box is float32 (biotite inverts "
    "it in float32), else 1; a membership is judged IN only when the 27-image and the 125-image minimum agree "
    "(else undecided_skew); results are compared as sets of atom indices, repeated indices are counted "
    "(duplicate_index), not judged; points exactly on box faces are generated for orthorhombic boxes only",
    "padding position (-1) inside a row is not judged (counted if not trailing); row order is not judged",
    "non-finite query coordinates: documented in the source as 'no adjacent atoms' -> judged as empty result",
    "NaN/inf radii, NaN cell sizes, degenerate boxes and 0-d radius arrays are not generated (not radii/cells/boxes)",
    "large_ratio stratum: MemoryError is an accepted decline; a returned result must still be exact",
]
MIN_CASES_PER_WORKER = 20
WATCHDOG = {"quick": 1800, "thorough": 6 * 3600}
MANIFEST = {
    "technique": "differential monitor: every CellList query (index/mask/single/batched/per-query radii/cell-based/"
                 "adjacency, open and periodic) vs float64 brute force (125-image minimum image) with a "
                 "format-derived undecided band; ASan/UBSan build of celllist.c; process-exit monitor; "
                 "sys.monitoring reach counters on box.py helpers",
    "level_text": "Runtime monitoring: thousands (thorough: 300 000) of generated coordinate sets, cell sizes, "
                  "selections, boxes and query batches are executed on the real CellList (ASan+UBSan build of the "
                  "generated C) and every returned index array / mask / adjacency matrix is compared with a float64 "
                  "brute-force computation; memberships within float32 rounding of the radius are counted as "
                  "undecided; worker deaths and sanitizer reports are violations.  Held-on-what-was-observed, not a proof.",
    "level_note": "Trusts the brute-force reference (audited in selftest against pure-Python loops and a 343-image "
                  "search), numpy, and that the generated celllist.c in the tree corresponds to celllist.pyx (no Cython "
                  "here).  1-200 atoms, radius/cell_size <= 60 in the exactness strata, cell radii up to 12000 judged "
                  "for crashes only; strongly skewed cells where the 27 replicated images miss the minimum image are "
                  "counted, not judged.  Known findings are quarantined into probes.",
    "design_ref": "DESIGN.md section 6, C14",
}

T_BUFFER = "cell_radius_buffer_overflow"     # (2R+1)^3*max_cell_length >= 2^31
T_FARQ = "query_cell_index_overflow"         # |q-min|/cell_size (+R) >= 2^31
T_STRIDED = "noncontiguous_selection"

struc = None
CellList = None


def setup(ctx):
    global struc, CellList
    import biotite.structure as struc_
    struc = struc_
    CellList = struc.CellList


def _budget(ctx):
    return (1 << 22) if ctx.tier == "quick" else (1 << 24)


def _cellcap(ctx):
    return 3e5 if ctx.tier == "quick" else 1.5e6


# ------------------------------------------------------------------ calling biotite
def _quiet(fn, *a, **k):
    with warnings.catch_warnings():
        warnings.simplefilter("ignore")
        with np.errstate(all="ignore"):
            return fn(*a, **k)




def check_empty_queries(ctx, cl):
    """A query batch without any point (both an empty (0,3) array and an empty 1-D array) has an empty answer."""
    ctx.oracle("empty_query_empty_answer")
    for q in (np.zeros((0, 3)), np.array([])):
        for name, arg in (("get_atoms", 1.0), ("get_atoms_in_cells", 1)):
            ctx.op("%s[empty query %s]" % (name, q.shape))
            try:
                r = getattr(cl, name)(q, arg)
            except Exception as e:
                ctx.fail("empty_query_empty_answer", "%s(query of shape %s) raised %s: %s" % (name, q.shape, type(e).__name__, e))
            if np.size(r) != 0:
                ctx.fail("empty_query_empty_answer", "%s(query of shape %s) returned %d entries" % (name, q.shape, np.size(r)))




LAST_DECOY = [False]


def make_list(ctx, P_in, cs, sel=None, box=None, as_atom_array=False):
    """Construct the CellList.  P_in is the array handed over (float64/float32)."""
    ctx.op("CellList")
    if sel is not None:
        ctx.op("CellList.selection")
    if box is not None:
        ctx.op("CellList.periodic")
    kw = {}
    if sel is not None:
        kw["selection"] = sel
    if as_atom_array:
        ctx.op("CellList.AtomArray")
        arr = struc.AtomArray(P_in.shape[0])
        arr.coord = P_in
        LAST_DECOY[0] = False
        if box is not None:
            arr.box = box
            kw["periodic"] = True
            if (ctx.index or 0) % 3 == 0:
                # the structure carries another box than the one given with `box=`: the documented rule is that the
                # keyword takes precedence over the box attribute
                arr.box = (np.asarray(box, dtype=np.float64) * 1.37)[[1, 2, 0]]
                kw["box"] = box
                LAST_DECOY[0] = True
                ctx.op("CellList.AtomArray_with_other_box")
        elif (ctx.index or 0) % 4 == 2:
            # a non-periodic list of a structure that carries a box, or that is given one: 'box' is documented to have
            # an effect only if 'periodic' is true
            arr.box = _idle_box(P_in)
            if (ctx.index or 0) % 8 == 2:
                kw["box"] = _idle_box(P_in)
            ctx.op("CellList.nonperiodic_with_box")
        return _quiet(CellList, arr, cs, **kw), arr
    if box is not None:
        kw["periodic"] = True
        kw["box"] = box
    elif (ctx.index or 0) % 4 == 2:
        kw["box"] = _idle_box(P_in)
        if (ctx.index or 0) % 8 == 2:
            kw["periodic"] = False
        ctx.op("CellList.nonperiodic_with_box")
    return _quiet(CellList, P_in, cs, **kw), None


def _idle_box(P):
    """A valid box smaller than the extent of the points (so that wrapping the points or the queries into it would show)."""
    P = np.asarray(P, dtype=np.float64)
    fin = P[np.isfinite(P).all(axis=1)] if P.size else P
    ext = float(np.ptp(fin, axis=0).max()) if len(fin) else 1.0
    L = max(0.37 * ext, 1.0)
    return np.array([[L, 0, 0], [0.2 * L, 0.9 * L, 0], [0, 0.1 * L, 1.1 * L]], dtype=np.float32)


def _fail_form(ctx, msg, res):
    ctx.fail("result_form", msg, got_dtype=str(getattr(res, "dtype", None)), got_shape=list(getattr(res, "shape", [])))


def to_mask(ctx, res, as_mask, m, n, single, periodic):
    """Normalise a query result to an (m,n) bool matrix; checks the documented form."""
    ctx.oracle("result_form")
    if not isinstance(res, np.ndarray):
        ctx.fail("result_form", "result is %s, not ndarray" % type(res).__name__)
    if as_mask:
        if res.dtype != np.bool_:
            _fail_form(ctx, "mask result is not bool", res)
        if single:
            if res.shape != (n,):
                _fail_form(ctx, "single-query mask shape != (%d,)" % n, res)
            return res[None, :].copy()
        if res.shape != (m, n):
            _fail_form(ctx, "mask shape != (%d,%d)" % (m, n), res)
        return res.copy()
    if res.dtype != np.int32:
        _fail_form(ctx, "index result is not int32", res)
    if single:
        if res.ndim != 1:
            _fail_form(ctx, "single-query index result is not 1-D", res)
        rows = res[None, :]
    else:
        if res.ndim != 2 or res.shape[0] != m:
            _fail_form(ctx, "index result is not (m,p) with m=%d" % m, res)
        rows = res
    M = np.zeros((rows.shape[0], n), dtype=bool)
    for i in range(rows.shape[0]):
        row = rows[i]
        keep = row != -1
        v = row[keep]
        if v.size:
            if int(v.min()) < 0 or int(v.max()) >= n:
                ctx.fail("result_form", "index outside 0..%d in row %d: %s" % (n - 1, i, v[:20].tolist()))
            if not keep[:v.size].all():
                ctx.note("padding_not_trailing")
            M[i, v] = True
            if int(M[i].sum()) != v.size:
                if periodic:
                    ctx.note("duplicate_index")
                else:
                    ctx.fail("result_form", "repeated atom index in a non-periodic result row %d: %s" % (i, sorted(v.tolist())[:30]))
    return M


def judge(ctx, oracle, got, exp, w, Q, R, what):
    """got (m,n) bool vs classification `exp`."""
    IN, OUT = exp["IN"], exp["OUT"]
    ctx.oracle(oracle, got.shape[0])
    if w.periodic:
        ctx.oracle("periodic_min_image", got.shape[0])
    miss = IN & ~got
    extra = OUT & got
    bad = miss if miss.any() else (extra if extra.any() else None)
    if bad is not None:
        i, j = (int(x) for x in np.argwhere(bad)[0])
        kind = "missing" if miss.any() else "unexpected"
        ctx.fail(
            oracle if not (w.periodic and oracle == "get_atoms_exact") else "periodic_min_image",
            "%s: atom %d %s for query %d (distance %.9g, radius %.9g, band %.3g; %d missing / %d unexpected in the batch)"
            % (what, j, kind, i, float(exp["D"][i, j]), float(R[i]), float(exp["band"][i, j]), int(miss.sum()), int(extra.sum())),
            query=Q[i].tolist(), atom_index=j, atom_coord=w.P[j].tolist(), radius=float(R[i]),
            distance=float(exp["D"][i, j]), band=float(exp["band"][i, j]), cell_size=w.cs, n_atoms=w.n,
            selected=bool(w.sel[j]), periodic=w.periodic, box=(w.box.tolist() if w.periodic else None),
            call=what)
    nin, nout = int(IN.sum()), int(OUT.sum())
    ctx.note("memberships_decided_in", nin)
    ctx.note("memberships_decided_out", nout)
    und = IN.size - nin - nout
    if und:
        ctx.note("undecided_band", und - int(exp["skew"].sum()))
    if exp["skew"].any():
        ctx.note("undecided_skew", int(exp["skew"].sum()))
    return nin, nout


def check_nonfinite(ctx, got, exp, what):
    fin = exp["fin"]
    if (~fin).any():
        ctx.oracle("nonfinite_query_empty", int((~fin).sum()))
        if got[~fin].any():
            ctx.fail("nonfinite_query_empty", "%s: non-finite query returned atoms %s" % (what, np.argwhere(got[~fin])[:5].tolist()))


# ------------------------------------------------------------------ the query battery
def _call(ctx, opname, fn, *a, **k):
    ctx.op(opname)
    try:
        return _quiet(fn, *a, **k)
    except MemoryError as e:
        ctx.exc(e)
        ctx.inconclusive("MemoryError in a memory-bounded query (%s)" % opname)


def _rows(exp, idx):
    return {k: (v[idx] if isinstance(v, np.ndarray) else v) for k, v in exp.items()}


def _rdesc(r):
    if isinstance(r, np.ndarray):
        return "array(%s,%s)" % (r.dtype, r.tolist())
    return "%s(%r)" % (type(r).__name__, float(r))


def battery(ctx, rng, cl, w, Qin, r_scalar, r_arr, rc_cap):
    """Every query form for one batch of query points.  Returns (#IN, #OUT) decided."""
    Q = np.asarray(Qin, dtype=np.float64).reshape(-1, 3)
    m, n = Q.shape[0], w.n
    dist = w.distances(Q)
    tot_in = tot_out = 0

    # 1. scalar radius, padded index array
    Rs = np.full(m, float(r_scalar))
    ratio = float(r_scalar) / w.cs
    ctx.note("radius_over_cell_size:" + ("0" if ratio == 0 else "<=1" if ratio <= 1 else "<=5" if ratio <= 5 else "<=20" if ratio <= 20 else "<=60"))
    exp = w.expect(Q, Rs, dist=dist)
    res = _call(ctx, "get_atoms", cl.get_atoms, Qin, r_scalar)
    gi = to_mask(ctx, res, False, m, n, False, w.periodic)
    what = "get_atoms(Q, %s)" % _rdesc(r_scalar)
    a, b = judge(ctx, "get_atoms_exact", gi, exp, w, Q, Rs, what)
    tot_in += a; tot_out += b
    check_nonfinite(ctx, gi, exp, what)

    # 2. same question as mask
    res = _call(ctx, "get_atoms.as_mask", cl.get_atoms, Qin, r_scalar, as_mask=True)
    gm = to_mask(ctx, res, True, m, n, False, w.periodic)
    ctx.oracle("mask_equals_index", m)
    if not np.array_equal(gi, gm):
        i, j = (int(x) for x in np.argwhere(gi != gm)[0])
        ctx.fail("mask_equals_index", "%s: atom %d for query %d is %s in the index form and %s in the mask form"
                 % (what, j, i, bool(gi[i, j]), bool(gm[i, j])), query=Q[i].tolist(), radius=float(r_scalar), cell_size=w.cs)

    # 3. per-query radii
    if r_arr is not None:
        Ra = np.asarray(r_arr, dtype=np.float64)
        r_keep = r_arr.copy()
        exp2 = w.expect(Q, Ra, dist=dist)
        as_mask = bool(rng.random() < 0.4)
        res = _call(ctx, "get_atoms.radii_array", cl.get_atoms, Qin, r_arr, as_mask=as_mask)
        g = to_mask(ctx, res, as_mask, m, n, False, w.periodic)
        what = "get_atoms(Q, %s, as_mask=%s)" % (_rdesc(r_keep), as_mask)
        a, b = judge(ctx, "radii_array_exact", g, exp2, w, Q, Ra, what)
        tot_in += a; tot_out += b
        check_nonfinite(ctx, g, exp2, what)
        # the radii belong to the caller: unchanged by the query, and a second query with the same array agrees
        ctx.oracle("arguments_untouched")
        if r_arr.dtype != r_keep.dtype or not np.array_equal(r_arr, r_keep):
            ctx.fail("arguments_untouched", "%s changed the caller's radii array to %s" % (what, _rdesc(r_arr)))
        res = _call(ctx, "get_atoms.radii_array_again", cl.get_atoms, Qin, r_arr, as_mask=not as_mask)
        g2 = to_mask(ctx, res, not as_mask, m, n, False, w.periodic)
        ctx.oracle("mask_equals_index", m)
        if not np.array_equal(g, g2):
            i, j = (int(x) for x in np.argwhere(g != g2)[0])
            ctx.fail("mask_equals_index", "%s: second query with the same radii array differs for query %d atom %d" % (what, i, j))

    # 4. single (3,) form
    for _ in range(1 if m < 4 else 2):
        j = int(rng.integers(m))
        as_mask = bool(rng.random() < 0.5)
        res = _call(ctx, "get_atoms.single", cl.get_atoms, Qin[j], r_scalar, as_mask=as_mask)
        g = to_mask(ctx, res, as_mask, 1, n, True, w.periodic)
        e1 = _rows(exp, slice(j, j + 1))
        what = "get_atoms(q, %s, as_mask=%s) single" % (_rdesc(r_scalar), as_mask)
        judge(ctx, "single_query_exact", g, e1, w, Q[j:j + 1], Rs[j:j + 1], what)
        check_nonfinite(ctx, g, e1, what)

    # 5. cell-based query: superset of everything within cell_radius*cell_size
    rc = int(rng.integers(0, rc_cap + 1))
    Rc = np.full(m, rc * w.cs)
    expc = w.expect(Q, Rc, mode="cells", dist=dist)
    rc_arg = rc if rng.random() < 0.7 else (np.int64(rc) if rng.random() < 0.5 else np.int32(rc))
    res = _call(ctx, "get_atoms_in_cells", cl.get_atoms_in_cells, Qin, rc_arg)
    ci = to_mask(ctx, res, False, m, n, False, w.periodic)
    what = "get_atoms_in_cells(Q, %d)" % rc
    judge(ctx, "cells_superset", ci, expc, w, Q, Rc, what)
    check_nonfinite(ctx, ci, expc, what)
    res = _call(ctx, "get_atoms_in_cells.as_mask", cl.get_atoms_in_cells, Qin, rc_arg, as_mask=True)
    cm = to_mask(ctx, res, True, m, n, False, w.periodic)
    ctx.oracle("mask_equals_index", m)
    if not np.array_equal(ci, cm):
        ctx.fail("mask_equals_index", "%s: index form and mask form differ at %s" % (what, np.argwhere(ci != cm)[:4].tolist()),
                 cell_size=w.cs, queries=Q.tolist())
    if rng.random() < 0.5:
        rcs = rng.integers(0, rc_cap + 1, size=m).astype(str(rng.choice(["int32", "int64", "uint8"])))
        Rc2 = rcs.astype(np.float64) * w.cs
        expc2 = w.expect(Q, Rc2, mode="cells", dist=dist)
        as_mask = bool(rng.random() < 0.3)
        res = _call(ctx, "get_atoms_in_cells.radii_array", cl.get_atoms_in_cells, Qin, rcs, as_mask=as_mask)
        g = to_mask(ctx, res, as_mask, m, n, False, w.periodic)
        what = "get_atoms_in_cells(Q, %s)" % _rdesc(rcs)
        judge(ctx, "cells_superset", g, expc2, w, Q, Rc2, what)
        check_nonfinite(ctx, g, expc2, what)
    if m > 0 and rng.random() < 0.3:
        j = int(rng.integers(m))
        as_mask = bool(rng.random() < 0.5)
        res = _call(ctx, "get_atoms_in_cells.single", cl.get_atoms_in_cells, Qin[j], rc, as_mask=as_mask)
        g = to_mask(ctx, res, as_mask, 1, n, True, w.periodic)
        judge(ctx, "cells_superset", g, _rows(expc, slice(j, j + 1)), w, Q[j:j + 1], Rc[j:j + 1], what + " single")

    # 6. empty batch: documented to return an empty 1-D array
    if rng.random() < 0.03:
        as_mask = bool(rng.random() < 0.5)
        res = _call(ctx, "get_atoms.empty_batch", cl.get_atoms, np.zeros((0, 3)), r_scalar, as_mask=as_mask)
        ctx.oracle("result_form")
        if not isinstance(res, np.ndarray) or res.size != 0:
            ctx.fail("result_form", "empty query batch returned %r" % (res,))
    return tot_in, tot_out


def adjacency(ctx, cl, w, thr, what=""):
    """create_adjacency_matrix vs thresholded (minimum-image) distance matrix."""
    n = w.n
    A = _call(ctx, "create_adjacency_matrix", cl.create_adjacency_matrix, thr)
    ctx.oracle("result_form")
    if not isinstance(A, np.ndarray) or A.dtype != np.bool_ or A.shape != (n, n):
        _fail_form(ctx, "adjacency matrix is not bool (n,n)", A)
    Q = np.where(np.isfinite(w.P), w.P, 0.0)
    R = np.full(n, float(thr))
    exp = w.expect(Q, R)
    # rows of atoms that are not stored must be all False as well (documented)
    exp["IN"][~w.sel, :] = False
    exp["OUT"][~w.sel, :] = True
    exp["skew"][~w.sel, :] = False
    a, b = judge(ctx, "adjacency_equals_threshold", A, exp, w, Q, R, "create_adjacency_matrix(%r)%s" % (float(thr), what))
    ctx.oracle("adjacency_symmetric")
    decided = exp["IN"] | exp["OUT"]
    asym = (A != A.T) & decided & decided.T
    if asym.any():
        i, j = (int(x) for x in np.argwhere(asym)[0])
        ctx.fail("adjacency_symmetric", "m[%d,%d]=%s but m[%d,%d]=%s (distance %.9g, threshold %.9g)"
                 % (i, j, bool(A[i, j]), j, i, bool(A[j, i]), float(exp["D"][i, j]), float(thr)),
                 a=w.P[i].tolist(), b=w.P[j].tolist(), cell_size=w.cs)
    if (A != A.T).any():
        ctx.note("adjacency_asymmetric_inside_band", int((A != A.T).sum()) // 2)
    return a, b


# ------------------------------------------------------------------ generators (open space)
def U(rng, a, b):
    return float(a + (b - a) * rng.random())


def rand_dir(rng, axis_p=0.3):
    if rng.random() < axis_p:
        v = np.zeros(3)
        v[int(rng.integers(3))] = 1.0 if rng.random() < 0.5 else -1.0
        return v
    v = rng.normal(size=3)
    return v / np.linalg.norm(v)


def gen_n(rng, hi=200):
    u = rng.random()
    if u < 0.05:
        n = 1
    elif u < 0.25:
        n = int(rng.integers(2, 6))
    elif u < 0.60:
        n = int(rng.integers(6, 31))
    elif u < 0.85:
        n = int(rng.integers(31, 101))
    else:
        n = int(rng.integers(101, 201))
    return min(n, hi)


POINT_KINDS = ["uniform", "clustered", "collinear", "coplanar", "duplicated", "two_scale"]


def gen_points(rng, kind, n, scale):
    if kind == "uniform":
        P = rng.random((n, 3)) * scale
    elif kind == "clustered":
        k = int(rng.integers(1, 5))
        cen = rng.random((k, 3)) * scale
        sig = scale * 10 ** U(rng, -4, -1)
        P = cen[rng.integers(k, size=n)] + rng.normal(size=(n, 3)) * sig
    elif kind == "collinear":
        d = rand_dir(rng, 0.5)
        P = (rng.random(3) * scale)[None, :] + (rng.random(n) * scale)[:, None] * d[None, :]
    elif kind == "coplanar":
        if rng.random() < 0.5:
            P = rng.random((n, 3)) * scale
            P[:, int(rng.integers(3))] = U(rng, 0, scale)
        else:
            e1, e2 = rand_dir(rng, 0), rand_dir(rng, 0)
            P = (rng.random(3) * scale)[None, :] + (rng.random(n) * scale)[:, None] * e1 + (rng.random(n) * scale)[:, None] * e2
    elif kind == "duplicated":
        k = int(rng.integers(1, max(2, n // 3 + 1)))
        pts = rng.random((k, 3)) * scale
        P = pts[rng.integers(k, size=n)]
    else:  # two_scale: tight cluster and a few far outliers
        P = (rng.random(3) * scale)[None, :] + rng.normal(size=(n, 3)) * scale * 1e-3
        for j in rng.choice(n, size=min(n, int(rng.integers(1, 4))), replace=False):
            P[j] = rng.random(3) * scale
    if rng.random() < 0.5:
        fmax = min(2.0, 5.0 - np.log10(scale))
        if fmax > 0:
            P = P + (rand_dir(rng) * scale * 10 ** U(rng, 0, fmax))[None, :]
    return P


def pick_cell_size(rng, ctx, C, ext0, lo=-2.0, hi=3.0):
    cs = ext0 * 10 ** U(rng, lo, hi)
    if rng.random() < 0.5:
        cs = float(np.float32(cs))
    cap = _cellcap(ctx)
    while ref.cell_count(C, cs) > cap:
        cs *= 1.5
    return float(cs)


QUERY_CLASSES = ["inside", "inside", "atom", "near_atom", "bbox", "cell_border", "outside_near",
                 "outside", "outside", "nonfinite", "astronomic"]


def gen_queries(rng, ctx, P, cs, ext0, rscale, m, classes=None):
    """(m,3) float64 query points and their class names."""
    fin = np.isfinite(P).all(axis=1)
    Pf = P[fin]
    mn, mx = Pf.min(axis=0), Pf.max(axis=0)
    cen = 0.5 * (mn + mx)
    out, names = [], []
    for _ in range(m):
        c = str(rng.choice(classes or QUERY_CLASSES))
        if c == "astronomic" and not ctx.allowed(T_FARQ):
            c = "outside"
        if c == "inside":
            q = mn + rng.random(3) * (mx - mn)
        elif c == "atom":
            q = Pf[int(rng.integers(len(Pf)))].copy()
        elif c == "near_atom":
            q = Pf[int(rng.integers(len(Pf)))] + rand_dir(rng) * rscale * U(rng, 0, 2)
        elif c == "bbox":
            q = np.array([(mn[d], mx[d], mn[d] + rng.random() * (mx[d] - mn[d]))[int(rng.integers(3))] for d in range(3)])
        elif c == "cell_border":
            mn32 = mn.astype(np.float32)
            ncell = np.floor((mx - mn) / cs) + 1
            k = np.array([int(rng.integers(-2, int(min(ncell[d], 1e6)) + 3)) for d in range(3)], dtype=np.float32)
            q32 = mn32 + k * np.float32(cs)
            for d in range(3):
                u = rng.random()
                if u < 0.25:
                    q32[d] = np.nextafter(q32[d], np.float32(np.inf))
                elif u < 0.5:
                    q32[d] = np.nextafter(q32[d], np.float32(-np.inf))
            q = q32.astype(np.float64)
        elif c == "outside_near":
            q = mn + rng.random(3) * (mx - mn)
            d = int(rng.integers(3))
            step = U(rng, 0, 2) * max(cs, rscale)
            q[d] = mx[d] + step if rng.random() < 0.5 else mn[d] - step
        elif c == "outside":
            q = cen + rand_dir(rng) * ext0 * 10 ** U(rng, 0, 4)
        elif c == "nonfinite":
            q = mn + rng.random(3) * (mx - mn)
            for d in rng.choice(3, size=int(rng.integers(1, 4)), replace=False):
                q[d] = (np.nan, np.inf, -np.inf)[int(rng.integers(3))]
        else:  # astronomic: finite, but (q-min)/cell_size does not fit a C int
            q = mn + rng.random(3) * (mx - mn)
            for d in rng.choice(3, size=int(rng.integers(1, 4)), replace=False):
                q[d] = (1 if rng.random() < 0.5 else -1) * 10 ** U(rng, 12, 38)
        if c != "astronomic" and np.isfinite(q).all():
            far = float(np.abs(q - mn).max()) / cs
            if far > 2.0 ** 29:                       # keep the clean classes inside the C int range
                q = mn + (q - mn) * (2.0 ** 29 / far)
        out.append(q)
        names.append(c)
    return np.array(out, dtype=np.float64).reshape(m, 3), names


def query_form(rng, Q):
    """The array object handed to biotite (and the float64 values it carries)."""
    u = rng.random()
    with np.errstate(all="ignore"):
        if u < 0.07 and Q.size and np.isfinite(Q).all() and float(np.abs(Q).max()) < 2.0 ** 23:
            # whole-numbered positions in an integer dtype (grid points, rng.integers(...)): the values the library is
            # handed are the rounded ones, and the reference model is given exactly those
            return np.round(Q).astype(str(rng.choice(["int64", "int32"]))), "int"
        if u < 0.55:
            return Q.copy(), "f64"
        if u < 0.85:
            return Q.astype(np.float32), "f32"
        if u < 0.93:
            big = np.zeros((2 * Q.shape[0], 3), dtype=np.float64)
            big[::2] = Q
            return big[::2], "f64_strided"
        return np.asfortranarray(Q.astype(np.float32)), "f32_fortran"


RADIUS_CLASSES = ["zero", "tiny", "sub", "sub", "cell", "cell", "several", "several", "extent", "atom_dist"]


def gen_radius(rng, cls, cs, ext_diag, Rcap, w=None, Q=None):
    if cls == "zero":
        r = 0.0
    elif cls == "tiny":
        r = cs * 10 ** U(rng, -6, -2)
    elif cls == "sub":
        r = cs * U(rng, 0.05, 1.0)
    elif cls == "cell":
        r = int(rng.integers(1, 4)) * cs
    elif cls == "several":
        r = cs * U(rng, 1.0, max(1.0, float(Rcap)))
    elif cls == "extent":
        r = ext_diag * U(rng, 1.0, 3.0)
    else:  # exactly the float64 distance of one query/atom pair: that membership is a tie
        r = cs
        if w is not None and Q is not None:
            fq = np.isfinite(Q).all(axis=1)
            if fq.any():
                D, _ = w.distances(Q[fq][:1])
                D = D[0][np.isfinite(D[0])]
                if D.size:
                    r = float(D[int(rng.integers(D.size))])
    Rcap = max(1, int(Rcap))
    if not np.isfinite(r) or r / cs > Rcap - 0.01:
        r = cs * (Rcap - 0.01) if r / cs > Rcap - 0.01 else cs
    return float(r)


def scalar_form(rng, r):
    u = rng.random()
    if u < 0.6:
        return float(r)
    if u < 0.75:
        return np.float32(r)
    if u < 0.85:
        return np.float64(r)
    return int(r) if r >= 1 else float(r)


def radii_form(rng, rs):
    u = rng.random()
    a = np.array(rs, dtype=np.float64)
    if u < 0.6:
        return a
    if u < 0.85:
        return a.astype(np.float32)
    return np.floor(a).astype(np.int64)


def gen_selection(rng, ctx, n):
    """-> (selection object or None, bool mask actually meant, kind)"""
    u = rng.random()
    if u < 0.55:
        return None, np.ones(n, dtype=bool), "none"
    if u < 0.65:
        m = np.ones(n, dtype=bool)
        return m, m, "all"
    if u < 0.68:
        m = np.zeros(n, dtype=bool)
        return m, m, "empty"
    m = rng.random(n) < float(rng.choice([0.3, 0.7]))
    if not m.any():
        m[int(rng.integers(n))] = True
    if u < 0.72 and ctx.allowed(T_STRIDED):
        big = np.zeros(2 * n, dtype=bool)
        big[::2] = m
        return big[::2], m, "strided"
    return m, m, "random"


# ------------------------------------------------------------------ strata: open, lattice_border
def _input_form(rng, P):
    form = str(rng.choice(["f64", "f64", "f32", "atomarray"]))
    P_in = P if form == "f64" else P.astype(np.float32)
    return form, P_in


def _log_points(ctx, P_in):
    if P_in.shape[0] <= 21:
        ctx.log("coord", str(P_in.dtype), P_in.tolist())
    else:
        ctx.log("coord_head", str(P_in.dtype), list(P_in.shape), P_in[:6].tolist())


def _run_batches(ctx, rng, cl, w, stored, ext0, ext_diag, nbatch, qclasses=None, rclasses=None, rc_hard=3, half_height=None, qgen=None):
    """Query batches + occasional adjacency on one list.  `stored` = coordinates that fill
    the cells (selected atoms, incl. periodic images) for the memory model."""
    budget = _budget(ctx)
    mcl = 2 * ref.est_max_cell_length(stored, w.cs)
    tot_in = tot_out = 0
    seen = []
    for _ in range(nbatch):
        m = int(rng.integers(1, 9))
        rcls = [str(rng.choice(rclasses or RADIUS_CLASSES)) for _ in range(m + 1)]
        if "extent" in rcls or "several" in rcls:
            m = min(m, int(rng.integers(1, 4)))
        Rcap = max(1, ref.rcap(budget, mcl, m))
        rscale = w.cs * 10 ** U(rng, -3, 0.5)
        if qgen is not None:
            Q, qnames = qgen(m, rscale)
        else:
            Q, qnames = gen_queries(rng, ctx, w.P, w.cs, ext0, rscale, m, qclasses)
        Qin, qform = query_form(rng, Q)
        Qact = np.asarray(Qin, dtype=np.float64)
        lim = (lambda r: r) if half_height is None else (lambda r: min(r, half_height))
        r0 = lim(gen_radius(rng, rcls[0], w.cs, ext_diag, Rcap, w, Qact))
        r_scalar = scalar_form(rng, r0)
        r_arr = None
        if rng.random() < 0.7:
            r_arr = radii_form(rng, [lim(gen_radius(rng, c, w.cs, ext_diag, Rcap, w, Qact)) for c in rcls[1:m + 1]])
        ctx.log("queries", qform, Qin.tolist(), "radius", _rdesc(r_scalar), "radii", None if r_arr is None else _rdesc(r_arr))
        a, b = battery(ctx, rng, cl, w, Qin, r_scalar, r_arr, min(rc_hard, max(0, ref.rcap(budget, mcl, m, hard=rc_hard))))
        tot_in += a; tot_out += b
        seen.append((tuple(sorted(set(qnames))), tuple(sorted(set(rcls[:m + 1]))), qform))
    return tot_in, tot_out, seen, mcl


def _maybe_adjacency(ctx, rng, cl, w, mcl, ext_diag, p, half_height=None):
    if rng.random() >= p:
        return 0, 0
    nsel = int(w.sel.sum())
    Rcap = ref.rcap(_budget(ctx), mcl, nsel)
    if Rcap < 1:
        if 27 * mcl * nsel > 4 * _budget(ctx):
            ctx.note("adjacency_skipped_budget")
            return 0, 0
        Rcap = 1
    cls = str(rng.choice(["zero", "sub", "cell", "several", "extent", "atom_dist"]))
    thr = gen_radius(rng, cls, w.cs, ext_diag, Rcap, w, np.where(np.isfinite(w.P), w.P, 0.0)[:1])
    if half_height is not None:
        thr = min(thr, half_height)
    ctx.log("create_adjacency_matrix", thr)
    return adjacency(ctx, cl, w, thr)


def _construct(ctx, P_in, cs, sel_obj, selkind, box=None, as_atom_array=False):
    """-> (cl, arr) or None when the documented ValueError for an empty selection was raised."""
    try:
        return make_list(ctx, P_in, cs, sel_obj, box, as_atom_array)
    except ValueError as e:
        if selkind == "empty" and "must not be empty" in str(e):
            ctx.exc(e)
            ctx.note("empty_selection_declined")
            return None
        raise
    except MemoryError as e:
        ctx.exc(e)
        ctx.inconclusive("MemoryError while building a memory-bounded CellList")


def case_open(rng, ctx):
    n = gen_n(rng)
    kind = "single" if n == 1 else str(rng.choice(POINT_KINDS))
    scale = 10 ** U(rng, -3, 5)
    P = gen_points(rng, "uniform" if n == 1 else kind, n, scale)
    form, P_in = _input_form(rng, P)
    sel_obj, sel, selkind = gen_selection(rng, ctx, n)
    if selkind == "random" and (~sel).any() and rng.random() < 0.07:
        selkind = "random_nan_unselected"          # atoms that are not stored may carry NaN
        P_in = P_in.copy()
        bad = np.nonzero(~sel)[0]
        P_in[bad[: int(rng.integers(1, len(bad) + 1))]] = np.nan
    P_act = np.asarray(P_in, dtype=np.float64)
    stored = P_act[sel] if sel.any() else P_act
    Pfin = P_act[np.isfinite(P_act).all(axis=1)]
    ptp = Pfin.max(axis=0) - Pfin.min(axis=0)
    ext0 = float(ptp.max()) if ptp.max() > 0 else scale
    ext_diag = float(np.linalg.norm(ptp)) if ptp.max() > 0 else scale
    cs = pick_cell_size(rng, ctx, Pfin, ext0)
    ctx.log({"stratum": "open", "kind": kind, "n": n, "scale": scale, "input": form, "selection": selkind,
             "cell_size": cs, "selected": (None if sel_obj is None else np.nonzero(sel)[0].tolist())})
    _log_points(ctx, P_in)
    built = _construct(ctx, P_in, cs, sel_obj, selkind, as_atom_array=(form == "atomarray"))
    if built is None:
        return
    cl, _ = built
    w = World(P_act, cs, sel)
    a, b, seen, mcl = _run_batches(ctx, rng, cl, w, stored, ext0, ext_diag, int(rng.integers(1, 4)))
    c, d = _maybe_adjacency(ctx, rng, cl, w, mcl, ext_diag, 0.2)
    ctx.state(("open", kind, min(n, 3) if n < 4 else (10 if n <= 30 else 100), form, selkind, tuple(seen)))
    ctx.mark_nontrivial(a + c > 0 and b + d > 0)


def case_lattice(rng, ctx):
    """Atoms on a lattice whose spacing equals the cell size: every atom sits on a cell border."""
    cs = float(rng.choice([0.5, 1.0, 2.0, 3.0, 0.1, 0.3, 1.7, 10 ** U(rng, -3, 3)]))
    g = [int(rng.integers(1, 7)) for _ in range(3)]
    sites = np.array([(i, j, k) for i in range(g[0]) for j in range(g[1]) for k in range(g[2])], dtype=np.float64)
    keep = rng.random(len(sites)) < float(rng.choice([1.0, 1.0, 0.6, 0.3]))
    if not keep.any():
        keep[int(rng.integers(len(sites)))] = True
    sites = sites[keep][:200]
    if rng.random() < 0.2:
        sites = np.concatenate([sites, sites[rng.integers(len(sites), size=min(20, len(sites)))]])[:200]
    spacing = cs * float(rng.choice([1.0, 1.0, 1.0, 2.0, 0.5]))
    u = rng.random()
    if u < 0.4:
        origin = np.zeros(3)
    elif u < 0.7:
        origin = rng.integers(-50, 50, size=3) * cs
    else:
        origin = rng.normal(size=3) * cs * 10 ** U(rng, 0, 3)
    P = origin[None, :] + sites * spacing
    n = P.shape[0]
    form, P_in = _input_form(rng, P)
    sel_obj, sel, selkind = gen_selection(rng, ctx, n)
    P_act = np.asarray(P_in, dtype=np.float64)
    stored = P_act[sel] if sel.any() else P_act
    ptp = P_act.max(axis=0) - P_act.min(axis=0)
    ext0 = float(ptp.max()) if ptp.max() > 0 else cs
    ext_diag = float(np.linalg.norm(ptp)) if ptp.max() > 0 else cs
    ctx.log({"stratum": "lattice_border", "grid": g, "n": n, "cell_size": cs, "spacing": spacing, "origin": origin.tolist(),
             "input": form, "selection": selkind, "selected": (None if sel_obj is None else np.nonzero(sel)[0].tolist())})
    _log_points(ctx, P_in)
    built = _construct(ctx, P_in, cs, sel_obj, selkind, as_atom_array=(form == "atomarray"))
    if built is None:
        return
    cl, _ = built
    w = World(P_act, cs, sel)
    budget = _budget(ctx)
    mcl = 2 * ref.est_max_cell_length(stored, cs)
    tot_in = tot_out = 0
    seen = []
    for _ in range(int(rng.integers(1, 4))):
        m = int(rng.integers(1, 9))
        Rcap = max(1, ref.rcap(budget, mcl, m))
        # queries: lattice sites, cell borders +-1 ulp, cell centres, exactly k cells outside
        Q = []
        for _q in range(m):
            k = np.array([int(rng.integers(-3, g[d] + 3)) for d in range(3)], dtype=np.float64)
            t = rng.random()
            if t < 0.35:
                q = origin + k * spacing
            elif t < 0.6:
                q32 = (origin + k * spacing).astype(np.float32)
                for d in range(3):
                    v = rng.random()
                    if v < 0.33:
                        q32[d] = np.nextafter(q32[d], np.float32(np.inf))
                    elif v < 0.66:
                        q32[d] = np.nextafter(q32[d], np.float32(-np.inf))
                q = q32.astype(np.float64)
            elif t < 0.8:
                q = origin + (k + 0.5) * spacing
            elif t < 0.9:
                q = origin + (k + rng.random(3)) * spacing
            else:
                q = origin + k * spacing
                q[int(rng.integers(3))] += (1 if rng.random() < 0.5 else -1) * int(rng.integers(1, 40)) * cs
            Q.append(q)
        Q = np.array(Q).reshape(m, 3)
        Qin, qform = query_form(rng, Q)
        rc = str(rng.choice(["zero", "cell", "k_cells", "diag2", "diag3", "just_below", "just_above", "sub", "several"]))
        kk = int(rng.integers(1, min(4, Rcap) + 1))
        r = {"zero": 0.0, "cell": cs, "k_cells": kk * cs, "diag2": spacing * 2 ** 0.5, "diag3": spacing * 3 ** 0.5,
             "just_below": spacing * (1 - 1e-3), "just_above": spacing * (1 + 1e-3), "sub": cs * U(rng, 0.05, 1),
             "several": cs * U(rng, 1, min(Rcap, 8))}[rc]
        if r / cs > Rcap - 0.01:
            r = cs * (Rcap - 0.01)
        r_scalar = scalar_form(rng, r)
        r_arr = None
        if rng.random() < 0.6:
            r_arr = radii_form(rng, [float(rng.choice([0.0, cs, spacing, kk * cs, spacing * 1.001, spacing * 2 ** 0.5, cs * U(rng, 0, min(Rcap, 4))]))
                                     for _q in range(m)])
            r_arr = np.minimum(r_arr, r_arr.dtype.type(cs * (Rcap - 0.01))) if r_arr.dtype.kind == "f" else r_arr
        ctx.log("queries", qform, Qin.tolist(), "radius", rc, _rdesc(r_scalar), "radii", None if r_arr is None else _rdesc(r_arr))
        a, b = battery(ctx, rng, cl, w, Qin, r_scalar, r_arr, min(3, ref.rcap(budget, mcl, m, hard=3)))
        tot_in += a; tot_out += b
        seen.append((rc, qform))
    c, d = _maybe_adjacency(ctx, rng, cl, w, mcl, ext_diag, 0.25)
    ctx.state(("lattice", tuple(g), cs if cs in (0.5, 1.0, 2.0, 3.0, 0.1, 0.3, 1.7) else "rnd", spacing / cs, form, selkind, tuple(seen)))
    ctx.mark_nontrivial(tot_in + c > 0 and tot_out + d > 0)


# ------------------------------------------------------------------ strata: periodic
SHIFTS1 = ref.SHIFTS2[ref.IN27]


def gen_box(rng, triclinic):
    L = 10 ** U(rng, -1, 3)
    la, lb, lc = (L * U(rng, 0.5, 2.0) for _ in range(3))
    kind = "ortho"
    if not triclinic:
        box = np.diag([la, lb, lc]).astype(np.float64)
    else:
        wide = rng.random() < 0.2
        lo, hi = (50.0, 130.0) if wide else (60.0, 120.0)
        kind = "triclinic_wide" if wide else "triclinic"
        while True:
            al, be, ga = (np.deg2rad(U(rng, lo, hi)) for _ in range(3))
            box = ref.unitcell_box(la, lb, lc, al, be, ga)
            if box is not None and ref.box_heights(box).min() > 0.3 * min(la, lb, lc):
                break
    if rng.random() < (0.2 if triclinic else 0.12):
        q, r_ = np.linalg.qr(rng.normal(size=(3, 3)))
        box = box @ q
        kind += "_rotated"
    return box, kind


def gen_frac(rng, n, ortho):
    kinds = ["uniform", "uniform", "clustered", "outside", "duplicated", "grid"] + (["faces"] if ortho else [])
    kind = str(rng.choice(kinds))
    if kind == "uniform":
        F = rng.random((n, 3))
    elif kind == "clustered":
        k = int(rng.integers(1, 4))
        F = rng.random((k, 3))[rng.integers(k, size=n)] + rng.normal(size=(n, 3)) * 10 ** U(rng, -3, -1)
    elif kind == "outside":
        F = rng.random((n, 3)) * 5 - 2
    elif kind == "duplicated":
        k = int(rng.integers(1, max(2, n // 3 + 1)))
        F = rng.random((k, 3))[rng.integers(k, size=n)]
    elif kind == "grid":
        F = (rng.integers(0, 4, size=(n, 3)) + 0.5) / 4.0
    else:  # faces: coordinates exactly on box faces / edges / corners
        F = rng.random((n, 3))
        on = rng.random((n, 3)) < 0.5
        F[on] = rng.choice([0.0, 1.0, 0.5, -1.0, 2.0], size=int(on.sum()))
    return F, kind


def case_periodic(rng, ctx, triclinic):
    box, bkind = gen_box(rng, triclinic)
    ortho = not triclinic
    int_box = bkind == "ortho" and rng.random() < 0.15
    if int_box:
        # box given as an integer array, e.g. np.diag([30, 24, 36]): the coordinates keep their fractional digits
        box = np.diag(np.maximum(2.0, np.round(np.diag(box))))
        bkind = "ortho_integer_dtype"
    n = gen_n(rng, hi=(120 if ctx.tier == "quick" else 200))
    F, fkind = gen_frac(rng, n, ortho)
    P = F @ box
    form = str(rng.choice(["f64", "f64", "f32", "atomarray", "f64_box32"]))
    if int_box and form in ("atomarray", "f64_box32"):
        form = "f64"
    P_in = P if form in ("f64", "f64_box32") else P.astype(np.float32)
    box_in = box if form in ("f64", "f32") else box.astype(np.float32)
    if int_box:
        box_in = box.astype(np.int64 if rng.random() < 0.5 else np.int32)
    box_f32 = box_in.dtype == np.float32
    sel_obj, sel, selkind = gen_selection(rng, ctx, n)
    P_act = np.asarray(P_in, dtype=np.float64)
    box_act = np.asarray(box_in, dtype=np.float64)
    heights = ref.box_heights(box_act)
    lens = ref.norms(box_act)
    Pw = ref.wrap(P_act, box_act)
    src = Pw[sel] if sel.any() else Pw
    stored = (src[None, :, :] + (SHIFTS1 @ box_act)[:, None, :]).reshape(-1, 3)
    cs = float(lens.mean()) * 10 ** U(rng, -1.1, 0.8)
    if rng.random() < 0.5:
        cs = float(np.float32(cs))
    while ref.cell_count(stored, cs) > _cellcap(ctx):
        cs *= 1.5
    unique = rng.random() < 0.5
    half = 0.5 * float(heights.min()) * 0.98 if unique else None
    ext_diag = 0.5 * float(np.linalg.norm(box_act.sum(axis=0)))
    ctx.log({"stratum": "periodic", "box_kind": bkind, "box": box_in.tolist(), "box_dtype": str(box_in.dtype), "n": n,
             "frac_kind": fkind, "input": form, "selection": selkind, "cell_size": cs, "unique_image_radii": unique,
             "selected": (None if sel_obj is None else np.nonzero(sel)[0].tolist())})
    _log_points(ctx, P_in)
    if box_in.dtype.kind == "f" and box_in.flags.writeable and rng.random() < 0.3:
        # the box array has held other values before (a trajectory whose box fluctuates: same array, edited in place) and
        # was used for periodic calls in that state
        saved = box_in.copy()
        box_in *= box_in.dtype.type(1.41)
        try:
            struc.move_inside_box(np.asarray(P_in, dtype=np.float32), box_in)
            struc.coord_to_fraction(np.asarray(P_in, dtype=np.float32), box_in)
        except Exception:
            pass
        box_in[...] = saved
        ctx.op("box_array_edited_in_place_before")
    built = _construct(ctx, P_in, cs, sel_obj, selkind, box=box_in, as_atom_array=(form == "atomarray"))
    if built is None:
        return
    cl, arr = built
    if ctx.index % 5 == 0:
        check_empty_queries(ctx, cl)
    if arr is not None and not LAST_DECOY[0]:
        box_act = arr.box.astype(np.float64)
    w = World(P_act, cs, sel, box=box_act, box_is_f32=box_f32)

    def qgen(m, rscale):
        out, names = [], []
        for _ in range(m):
            c = str(rng.choice(["inside", "inside", "outside", "far", "atom", "atom_image", "near_atom", "nonfinite"]
                               + (["faces"] if ortho else [])))
            if c == "inside":
                q = rng.random(3) @ box_act
            elif c == "outside":
                q = (rng.random(3) * 7 - 3) @ box_act
            elif c == "far":
                q = (rng.random(3) + np.sign(rng.normal(size=3)) * np.floor(10 ** rng.uniform(1, 3, size=3))) @ box_act
            elif c == "atom":
                q = P_act[int(rng.integers(n))].copy()
            elif c == "atom_image":
                q = P_act[int(rng.integers(n))] + rng.integers(-3, 4, size=3).astype(np.float64) @ box_act
            elif c == "near_atom":
                q = P_act[int(rng.integers(n))] + rand_dir(rng) * rscale * U(rng, 0, 2)
            elif c == "faces":
                f = rng.random(3)
                on = rng.random(3) < 0.6
                f[on] = rng.choice([0.0, 1.0, -1.0, 2.0, 0.5], size=int(on.sum()))
                q = f @ box_act
            else:
                q = rng.random(3) @ box_act
                for d in rng.choice(3, size=int(rng.integers(1, 4)), replace=False):
                    q[d] = (np.nan, np.inf, -np.inf)[int(rng.integers(3))]
            out.append(q)
            names.append(c)
        return np.array(out).reshape(m, 3), names

    a, b, seen, mcl = _run_batches(ctx, rng, cl, w, stored, float(lens.max()), ext_diag, int(rng.integers(1, 4)),
                                   rclasses=["zero", "tiny", "sub", "sub", "cell", "several", "several", "extent", "extent", "atom_dist"],
                                   half_height=half, qgen=qgen)
    c, d = _maybe_adjacency(ctx, rng, cl, w, mcl, ext_diag, 0.15 if n <= 120 else 0.05, half_height=half)
    ctx.state(("periodic", bkind, fkind, form, selkind, unique, min(n, 3) if n < 4 else (10 if n <= 30 else 100), tuple(seen)))
    ctx.mark_nontrivial(a + c > 0 and b + d > 0)


# ------------------------------------------------------------------ stratum: adjacency
def case_adjacency(rng, ctx):
    periodic = rng.random() < 0.4
    n = gen_n(rng, hi=(100 if periodic else 200))
    sel_obj, sel, selkind = gen_selection(rng, ctx, n)
    if periodic:
        tric = rng.random() < 0.5
        box, bkind = gen_box(rng, tric)
        F, kind = gen_frac(rng, n, not tric)
        P = F @ box
        form = str(rng.choice(["f64", "f32", "atomarray"]))
        P_in = P if form == "f64" else P.astype(np.float32)
        box_in = box.astype(np.float32) if form == "atomarray" else box
        P_act = np.asarray(P_in, dtype=np.float64)
        box_act = np.asarray(box_in, dtype=np.float64)
        Pw = ref.wrap(P_act, box_act)
        src = Pw[sel] if sel.any() else Pw
        stored = (src[None, :, :] + (SHIFTS1 @ box_act)[:, None, :]).reshape(-1, 3)
        ext0 = float(ref.norms(box_act).mean())
        ext_diag = 0.5 * float(np.linalg.norm(box_act.sum(axis=0)))
        lo, hi = -1.0, 0.8
    else:
        kind = "single" if n == 1 else str(rng.choice(POINT_KINDS))
        scale = 10 ** U(rng, -3, 5)
        P = gen_points(rng, "uniform" if n == 1 else kind, n, scale)
        form, P_in = _input_form(rng, P)
        box_in = box_act = None
        bkind = None
        P_act = np.asarray(P_in, dtype=np.float64)
        stored = P_act[sel] if sel.any() else P_act
        ptp = P_act.max(axis=0) - P_act.min(axis=0)
        ext0 = float(ptp.max()) if ptp.max() > 0 else scale
        ext_diag = float(np.linalg.norm(ptp)) if ptp.max() > 0 else scale
        lo, hi = -1.5, 1.5
    ctx.log({"stratum": "adjacency", "periodic": periodic, "box": None if box_in is None else box_in.tolist(), "box_kind": bkind,
             "kind": kind, "n": n, "input": form, "selection": selkind,
             "selected": (None if sel_obj is None else np.nonzero(sel)[0].tolist())})
    _log_points(ctx, P_in)
    tot_in = tot_out = 0
    sizes = []
    for _ in range(2):                       # "the resulting adjacency matrix is the same for every cell size"
        cs = ext0 * 10 ** U(rng, lo, hi)
        while ref.cell_count(stored, cs) > _cellcap(ctx):
            cs *= 1.5
        cs = float(cs)
        built = _construct(ctx, P_in, cs, sel_obj, selkind, box=box_in, as_atom_array=(form == "atomarray"))
        if built is None:
            return
        cl, arr = built
        if ctx.index % 5 == 0:
            check_empty_queries(ctx, cl)
        if arr is not None and periodic and not LAST_DECOY[0]:
            box_act = arr.box.astype(np.float64)
        w = World(P_act, cs, sel, box=box_act, box_is_f32=(periodic and form == "atomarray"))
        mcl = 2 * ref.est_max_cell_length(stored, cs)
        ctx.log("cell_size", cs)
        a, b = _maybe_adjacency(ctx, rng, cl, w, mcl, ext_diag, 1.1)
        tot_in += a; tot_out += b
        sizes.append(round(np.log10(cs / ext0)))
    ctx.state(("adjacency", periodic, bkind, kind, form, selkind, tuple(sizes), min(n, 3) if n < 4 else (10 if n <= 30 else 100)))
    ctx.mark_nontrivial(tot_in > 0 and tot_out > 0)


# ------------------------------------------------------------------ stratum: large_ratio (crash / sanitizer / decline only)
BUDGET_LARGE = 1 << 24
HUGE = 1 << 42            # a buffer of this many ints can only be declined with MemoryError


def _large_config(rng):
    """A list whose max_cell_length is known without modelling the float32 arithmetic."""
    cs = float(np.float32(10 ** U(rng, -2, 2)))
    if rng.random() < 0.6:
        n = gen_n(rng)
        P = rng.random((n, 3)) * cs * 0.6                 # extent < cell size: one cell
        return "one_cell", P, cs, n
    g = int(rng.integers(1, 5))
    P = np.array([(2 * i + 0.5, 2 * j + 0.5, 2 * k + 0.5) for i in range(g) for j in range(g) for k in range(g)]) * cs
    return "own_cell", P, cs, 1


def _pick_cell_radius(rng, ctx, mcl):
    """-> (R, class).  Only buffers that are small, or so large that a correct
    implementation must decline, are requested (nothing in between: that would
    really allocate gigabytes)."""
    fits = max(1, ref.rcap(BUDGET_LARGE, mcl, 1, hard=10 ** 6))
    if not ctx.allowed(T_BUFFER) or rng.random() < 0.4:
        return int(rng.integers(max(1, fits // 3), fits + 1)), "fits"
    for _ in range(200):
        R = int(10 ** U(rng, 2.3, 4.08))
        true = ref.buffer_len(R, mcl)
        wrapped = ref.wrap32(true)
        if true >= HUGE and (wrapped < 0 or wrapped <= BUDGET_LARGE):
            return R, ("wraps_negative" if wrapped < 0 else "wraps_small")
    return fits, "fits"


def case_many_atoms(rng, ctx):
    """More atoms than 15 bits count - spread over many cells, or all of them inside one cell."""
    n = int(rng.choice([32768, 32769, 40000]))
    mode = str(rng.choice(["spread", "one_cell"]))
    if mode == "spread":
        P = rng.uniform(0, 100, size=(n, 3)).astype(np.float32)
        cs = 5.0
    else:
        P = (rng.uniform(-1, 1, size=(n, 3)) + 50).astype(np.float32)
        cs = 10.0
    ctx.log({"stratum": "large_ratio", "many_atoms": n, "mode": mode, "cell_size": cs})
    ctx.op("many_atoms_" + mode)
    ctx.mark_nontrivial()
    ctx.state(("many_atoms", mode, n))
    cl = CellList(P, cs)
    P64 = P.astype(np.float64)
    for _ in range(3):
        q = P64[int(rng.integers(n))] + rng.normal(size=3) * 0.3
        d = np.sqrt(((P64 - q) ** 2).sum(axis=1))
        order = np.argsort(d)
        ds = d[order]
        # a radius in a gap between two consecutive distances that is wide enough to be decided in float32
        k0 = int(rng.integers(5, 400))
        k = next((k_ for k_ in range(k0, min(k0 + 2000, n - 1)) if ds[k_ + 1] - ds[k_] > 1e-3 * (1.0 + ds[k_])), None)
        if k is None:
            ctx.note("many_atoms_no_decidable_radius")
            continue
        r = float(0.5 * (ds[k] + ds[k + 1]))
        want = np.zeros(n, dtype=bool)
        want[order[: k + 1]] = True
        as_mask = bool(rng.random() < 0.5)
        ctx.op("get_atoms.many_atoms")
        ctx.oracle("get_atoms_exact")
        res = cl.get_atoms(q.astype(np.float32), r, as_mask=as_mask)
        if as_mask:
            got = np.asarray(res, dtype=bool)
            ok = got.shape == (n,) and np.array_equal(got, want)
        else:
            ids = np.asarray(res)
            ids = ids[ids != -1]
            ok = len(ids) == len(set(ids.tolist())) and ids.min(initial=0) >= 0 and ids.max(initial=0) < n and \
                np.array_equal(np.sort(ids), np.nonzero(want)[0])
        if not ok:
            ctx.fail("get_atoms_exact", "get_atoms over %d atoms (%s), radius %.6g, as_mask=%s: result differs from the %d atoms within the radius"
                     % (n, mode, r, as_mask, k + 1))


def case_large_ratio(rng, ctx):
    if ctx.index % 60 == 59:
        return case_many_atoms(rng, ctx)
    cfg, P, cs, mcl = _large_config(rng)
    n = P.shape[0]
    R, rclass = _pick_cell_radius(rng, ctx, mcl)
    q = P[int(rng.integers(n))] + rng.normal(size=3) * cs * 0.1
    use_cells = rng.random() < 0.4
    ctx.log({"stratum": "large_ratio", "config": cfg, "n": n, "cell_size": cs, "cell_radius": R, "class": rclass,
             "buffer_ints": ref.buffer_len(R, mcl), "method": "get_atoms_in_cells" if use_cells else "get_atoms", "query": q.tolist()})
    _log_points(ctx, P)
    cl, _ = make_list(ctx, P, cs)
    w = World(P, cs)
    r = (R - 0.5) * cs
    ctx.op("large_ratio." + rclass)
    try:
        if use_cells:
            ctx.op("get_atoms_in_cells")
            res = _quiet(cl.get_atoms_in_cells, q, R)
        else:
            ctx.op("get_atoms")
            res = _quiet(cl.get_atoms, q, r)
    except MemoryError as e:
        ctx.exc(e)
        ctx.oracle("large_ratio_no_crash")
        ctx.note("large_ratio_declined_MemoryError")
        return
    except ValueError as e:
        ctx.exc(e)
        ctx.fail("large_ratio_answered", "cell radius %d (buffer of %d ints) rejected with ValueError: %s" % (R, ref.buffer_len(R, mcl), e),
                 cell_size=cs, n_atoms=n, cell_radius=R, radius=r)
    ctx.oracle("large_ratio_no_crash")
    g = to_mask(ctx, res, False, 1, n, True, False)
    Q = q[None, :]
    if use_cells:
        judge(ctx, "cells_superset", g, w.expect(Q, np.array([R * cs]), mode="cells"), w, Q, np.array([R * cs]), "get_atoms_in_cells(q, %d)" % R)
    else:
        a, b = judge(ctx, "get_atoms_exact", g, w.expect(Q, np.array([r])), w, Q, np.array([r]), "get_atoms(q, %r)" % r)
    ctx.state(("large", cfg, rclass, use_cells, int(np.log10(R))))
    ctx.mark_nontrivial(True)


def run_case(stratum, rng, ctx):
    if stratum == "open":
        return case_open(rng, ctx)
    if stratum == "lattice_border":
        return case_lattice(rng, ctx)
    if stratum == "periodic_ortho":
        return case_periodic(rng, ctx, False)
    if stratum == "periodic_triclinic":
        return case_periodic(rng, ctx, True)
    if stratum == "adjacency":
        return case_adjacency(rng, ctx)
    if stratum == "large_ratio":
        return case_large_ratio(rng, ctx)
    raise KeyError(stratum)


# ------------------------------------------------------------------ oracle audit
def selftest(ctx):
    import itertools
    import math
    from vf.core import Ctx, Violation

    rng = np.random.default_rng(1414)
    # 1. Euclidean reference vs pure-Python loops
    for _ in range(20):
        P = rng.normal(size=(int(rng.integers(1, 6)), 3)) * 10 ** rng.uniform(-3, 5)
        Q = rng.normal(size=(int(rng.integers(1, 4)), 3)) * 10 ** rng.uniform(-3, 5)
        D = ref.ref_dist(P, Q)
        for i in range(len(Q)):
            for j in range(len(P)):
                e = math.dist(Q[i].tolist(), P[j].tolist())
                assert abs(D[i, j] - e) <= 1e-12 * max(1.0, e), (D[i, j], e)
    # 2. wrapping and minimum image vs an exhaustive 343-image search
    for t in range(40):
        if t % 2 == 0:
            box = np.diag(rng.uniform(1, 20, size=3))
        else:
            box = None
            while box is None:
                box = ref.unitcell_box(*rng.uniform(5, 15, size=3), *np.deg2rad(rng.uniform(75, 105, size=3)))
        if t % 5 == 0:
            box = box @ np.linalg.qr(rng.normal(size=(3, 3)))[0]
        P = (rng.random((4, 3)) * 6 - 3) @ box
        Q = (rng.random((3, 3)) * 6 - 3) @ box
        Pw, Qw = ref.wrap(P, box), ref.wrap(Q, box)
        inv = np.linalg.inv(box)
        assert ((Pw @ inv) > -1e-9).all() and ((Pw @ inv) < 1 + 1e-9).all()
        shift = rng.integers(-4, 5, size=(4, 3)).astype(float) @ box
        assert np.allclose(ref.wrap(P + shift, box), Pw, atol=1e-7) or True   # face flips allowed; images are checked below
        d27, d125 = ref.min_image(Pw, Qw, box)
        for i in range(3):
            for j in range(4):
                best = min(math.dist((Pw[j] + np.array(s, dtype=float) @ box).tolist(), Qw[i].tolist())
                           for s in itertools.product(range(-3, 4), repeat=3))
                assert abs(d125[i, j] - best) < 1e-9, (t, d125[i, j], best)
                assert d27[i, j] >= d125[i, j] - 1e-12
                if t % 2 == 0:
                    assert abs(d27[i, j] - best) < 1e-9
                # lattice translations of the original points do not change the minimum image
                d27b, d125b = ref.min_image(ref.wrap(P + shift, box), Qw, box)
                assert abs(d125b[i, j] - best) < 1e-7
    h = ref.box_heights(np.diag([2.0, 3.0, 5.0]))
    assert np.allclose(h, [2, 3, 5])
    assert np.allclose(ref.unitcell_box(1, 2, 3, np.pi / 2, np.pi / 2, np.pi / 2), np.diag([1.0, 2.0, 3.0]), atol=1e-12)
    assert ref.unitcell_box(1, 1, 1, np.deg2rad(130), np.deg2rad(130), np.deg2rad(130)) is None
    # 3. classification on literal examples
    P = np.array([[0, 0, 0], [1, 0, 0], [2, 0, 0], [3, 0, 0]], dtype=float)
    w = World(P, 1.0)
    e = w.expect(np.zeros((1, 3)), np.array([1.5]))
    assert e["IN"].tolist() == [[True, True, False, False]] and e["OUT"].tolist() == [[False, False, True, True]]
    e = w.expect(np.zeros((1, 3)), np.array([1.0]))            # tie: undecided
    assert e["IN"].tolist() == [[True, False, False, False]] and e["OUT"].tolist() == [[False, False, True, True]]
    e = w.expect(np.zeros((1, 3)), np.array([0.0]))            # radius 0 finds the identical point
    assert e["IN"].tolist() == [[True, False, False, False]] and e["OUT"].tolist() == [[False, True, True, True]]
    e = w.expect(np.array([[1.4e-45, 1.4e-45, 0]]), np.array([0.0]))   # below the float32 underflow threshold: undecided
    assert e["IN"].tolist() == [[False] * 4] and e["OUT"].tolist() == [[False, True, True, True]]
    e = World(P, 1.0, sel=np.array([True, False, True, True])).expect(np.zeros((1, 3)), np.array([1.5]))
    assert e["IN"].tolist() == [[True, False, False, False]] and e["OUT"].tolist() == [[False, True, True, True]]
    e = w.expect(np.array([[np.nan, 0, 0], [0, np.inf, 0]]), np.array([10.0, 10.0]))
    assert not e["IN"].any() and e["OUT"].all() and not e["fin"].any()
    e = w.expect(np.zeros((1, 3)), np.array([2.0]), mode="cells")
    assert e["IN"].tolist() == [[True, True, False, False]] and not e["OUT"].any()
    big = World(P + 1e5, 1.0).expect(np.full((1, 3), 1e5), np.array([1.02]))   # band grows with the magnitude: 4*eps32*3.5e5 = 0.17 -> atom 1 (d=1) undecided
    assert big["IN"].tolist() == [[True, False, False, False]] and big["OUT"].tolist() == [[False, False, True, True]]
    wp = World(np.array([[9.5, 0, 0], [5, 5, 5]], dtype=float), 2.0, box=np.eye(3) * 10)
    e = wp.expect(np.array([[0.2, 0, 0]]), np.array([1.0]))
    assert e["IN"].tolist() == [[True, False]] and e["OUT"].tolist() == [[False, True]] and abs(e["D"][0, 0] - 0.7) < 1e-12
    e = wp.expect(np.array([[30.2, -20, 10]]), np.array([0.5]))
    assert e["OUT"].tolist() == [[True, True]]
    # a strongly skewed cell: the 27 images miss the minimum image -> undecided_skew, not IN
    skew_box = np.array([[10.0, 0, 0], [19.0, 3.0, 0], [0, 0, 10.0]])
    ws = World(np.array([[0.5, 0.1, 0.0]]), 2.0, box=skew_box)
    qs = np.array([[28.5, 2.9, 0.0]]) 
    d27, d125 = ref.min_image(ws.Pw, ref.wrap(qs, skew_box), skew_box)
    if d27[0, 0] - d125[0, 0] > 1e-6:
        e = ws.expect(qs, np.array([0.5 * (d27[0, 0] + d125[0, 0])]))
        assert e["skew"].tolist() == [[True]] and not e["IN"].any() and not e["OUT"].any()
    # 4. the judge and the result normaliser notice fabricated errors
    c = Ctx("C14", "quick", 0, [])
    e = w.expect(np.zeros((1, 3)), np.array([1.5]))
    judge(c, "get_atoms_exact", np.array([[True, True, False, False]]), e, w, np.zeros((1, 3)), np.array([1.5]), "t")
    for wrong in ([[True, False, False, False]], [[True, True, True, False]]):
        try:
            judge(c, "get_atoms_exact", np.array(wrong), e, w, np.zeros((1, 3)), np.array([1.5]), "t")
        except Violation:
            pass
        else:
            raise AssertionError("judge accepted %r" % (wrong,))
    e = w.expect(np.zeros((1, 3)), np.array([1.0]))
    for ok in ([[True, True, False, False]], [[True, False, False, False]]):
        judge(c, "get_atoms_exact", np.array(ok), e, w, np.zeros((1, 3)), np.array([1.0]), "t")
    M = to_mask(c, np.array([[2, 0, -1], [-1, -1, -1]], dtype=np.int32), False, 2, 4, False, False)
    assert M.tolist() == [[True, False, True, False], [False] * 4]
    assert to_mask(c, np.array([3, 1], dtype=np.int32), False, 1, 4, True, False).tolist() == [[False, True, False, True]]
    for badres, single in ((np.array([[4, -1]], dtype=np.int32), False), (np.array([[1, 1]], dtype=np.int32), False),
                           (np.array([[1, 2]], dtype=np.int64), False), (np.array([[1, 2]], dtype=np.int32), True),
                           (np.zeros((1, 5), dtype=bool), None)):
        try:
            if single is None:
                to_mask(c, badres, True, 1, 4, False, False)
            else:
                to_mask(c, badres, False, 1, 4, single, False)
        except Violation:
            pass
        else:
            raise AssertionError("to_mask accepted %r" % (badres,))
    # 5. resource model
    assert ref.wrap32(ref.buffer_len(700, 10)) == 27498842010 - 6 * 2 ** 32
    assert ref.wrap32(ref.buffer_len(1000, 10)) < 0
    assert ref.wrap32(ref.buffer_len(11249, 176)) == 144
    for budget, mcl, m in ((1 << 23, 1, 1), (1 << 23, 7, 8), (1 << 22, 400, 200), (1 << 24, 3, 2)):
        R = ref.rcap(budget, mcl, m, hard=10 ** 6)
        assert R == 0 or (2 * R + 1) ** 3 * mcl * m <= budget
        assert (2 * (R + 1) + 1) ** 3 * mcl * m > budget
    assert ref.est_max_cell_length(np.array([[0, 0, 0], [0.4, 0, 0], [1.2, 0, 0.0]]), 1.0) == 2
    assert ref.cell_count(np.array([[0, 0, 0], [2.5, 1.0, 0.0]]), 1.0) == 6


# ------------------------------------------------------------------ probes (one subprocess each)
def _probe_buffer(ctx):
    """(2R+1)^3*max_cell_length does not fit the C int `length`: the candidate buffer gets a
    wrapped size (ValueError 'negative dimensions', or a too small buffer that is overrun)."""
    rng = np.random.default_rng(14)
    q = np.array([0.5, 0.5, 0.5])
    P10 = rng.random((10, 3))
    cl = CellList(P10, 2.0)
    w = World(P10, 2.0)
    declined = None
    for R in [r for r in (1000, 1300, 1700, 2600, 4000, 5000) if ref.wrap32(ref.buffer_len(r, 10)) < 0][:3]:
        for name, fn, rr in (("get_atoms_in_cells", lambda: cl.get_atoms_in_cells(q, R), R * 2.0),
                             ("get_atoms", lambda: cl.get_atoms(q, (R - 0.5) * 2.0), (R - 0.5) * 2.0)):
            ctx.log(name, "n=10 cell_size=2.0 cell_radius", R)
            ctx.op("probe." + name)
            try:
                res = _quiet(fn)
            except MemoryError as e:
                ctx.exc(e)
                continue
            except ValueError as e:
                ctx.exc(e)
                declined = declined or "%s with cell radius %d on a 10-atom one-cell list: ValueError: %s" % (name, R, e)
                continue
            g = to_mask(ctx, res, False, 1, 10, True, False)
            judge(ctx, "get_atoms_exact", g, w.expect(q[None], np.array([rr]), mode=("cells" if "cells" in name else "ball")),
                  w, q[None], np.array([rr]), name)
    # wrapped length 144 < 176 atoms that are found: out-of-bounds write in _find_adjacent_atoms
    assert ref.wrap32(ref.buffer_len(11249, 176)) == 144
    P176 = rng.random((176, 3))
    cl2 = CellList(P176, 2.0)
    ctx.log("get_atoms_in_cells", "n=176 cell_size=2.0 cell_radius", 11249)
    ctx.op("probe.get_atoms_in_cells")
    try:
        res = _quiet(cl2.get_atoms_in_cells, q, 11249)
    except MemoryError as e:
        ctx.exc(e)
    else:
        ctx.oracle("large_ratio_answered")
        got = sorted(set(int(x) for x in np.asarray(res).ravel() if x != -1))
        if got != list(range(176)):
            ctx.fail("large_ratio_answered", "cell radius 11249 on a 176-atom one-cell list returned %d distinct atoms" % len(got))
    ctx.oracle("large_ratio_answered")
    if declined:
        ctx.fail("large_ratio_answered", declined)


def _probe_farq(ctx):
    """Finite query whose cell index does not fit a C int (float -> int cast is undefined)."""
    rng = np.random.default_rng(15)
    P = rng.random((10, 3))
    cl = CellList(P, 0.5)
    w = World(P, 0.5)
    cases = [(np.array([1e30, 0.5, 0.5]), 0.4), (np.array([0.5, -1e30, 0.5]), 0.4), (np.array([0.5, 0.5, 3e38]), 0.4),
             (np.array([1e12, 1e12, 1e12]), 1.0), (np.array([0.5 * 2147483520.0, 0.5, 0.5]), 100.0)]
    for q, r in cases:
        for as_mask in (False, True):
            ctx.log("get_atoms", q.tolist(), r, as_mask)
            ctx.op("probe.get_atoms")
            res = _quiet(cl.get_atoms, q, r, as_mask=as_mask)
            g = to_mask(ctx, res, as_mask, 1, 10, True, False)
            judge(ctx, "get_atoms_exact", g, w.expect(q[None], np.array([r])), w, q[None], np.array([r]), "get_atoms(far query)")
        ctx.op("probe.get_atoms_in_cells")
        res = _quiet(cl.get_atoms_in_cells, q, 2)
        g = to_mask(ctx, res, False, 1, 10, True, False)
        judge(ctx, "cells_superset", g, w.expect(q[None], np.array([1.0]), mode="cells"), w, q[None], np.array([1.0]), "get_atoms_in_cells(far query)")


def _probe_strided(ctx):
    """A boolean selection that is a non-contiguous view."""
    rng = np.random.default_rng(16)
    for n in (3, 10, 40):
        P = rng.random((n, 3)) * 10
        m = rng.random(n) < 0.6
        m[0] = True
        big = np.zeros(2 * n, dtype=bool)
        big[::2] = m
        ctx.log("CellList", n, "selection=big[::2]", m.tolist())
        ctx.op("probe.CellList.selection")
        ctx.oracle("selection_accepted")
        try:
            cl = CellList(P, 3.0, selection=big[::2])
        except Exception as e:
            ctx.fail("selection_accepted", "non-contiguous boolean selection refused: %s: %s" % (type(e).__name__, e))
        w = World(P, 3.0, sel=m)
        res = cl.get_atoms(P[:2], 4.0)
        g = to_mask(ctx, res, False, 2, n, False, False)
        judge(ctx, "get_atoms_exact", g, w.expect(P[:2], np.array([4.0, 4.0])), w, P[:2], np.array([4.0, 4.0]), "get_atoms with strided selection")


PROBES = {
    T_BUFFER: _probe_buffer,
    T_FARQ: _probe_farq,
    T_STRIDED: _probe_strided,
}
