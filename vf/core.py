"""Shared worker-side machinery: verdict exceptions, the per-worker context
(counters, case log, witness), reach counters and method wrappers."""

import hashlib
import json
import os
import sys
import zlib

import numpy as np


class Violation(Exception):
    def __init__(self, oracle, message, **detail):
        super().__init__("%s: %s" % (oracle, message))
        self.oracle = oracle
        self.message = message
        self.detail = detail


class Inconclusive(Exception):
    def __init__(self, reason):
        super().__init__(reason)
        self.reason = reason


def jsonable(x, depth=0):
    """Best-effort conversion of a case description to JSON."""
    if depth > 6:
        return repr(x)[:200]
    if x is None or isinstance(x, (bool, int, float, str)):
        if isinstance(x, float) and (x != x or x in (float("inf"), float("-inf"))):
            return repr(x)
        return x
    if isinstance(x, (np.integer,)):
        return int(x)
    if isinstance(x, (np.floating,)):
        return jsonable(float(x))
    if isinstance(x, np.bool_):
        return bool(x)
    if isinstance(x, bytes):
        return {"bytes": x.decode("latin-1")}
    if isinstance(x, np.ndarray):
        if x.size > 64:
            return {"ndarray": str(x.dtype), "shape": list(x.shape),
                    "head": jsonable(x.ravel()[:32].tolist(), depth + 1)}
        return {"ndarray": str(x.dtype), "shape": list(x.shape),
                "data": jsonable(x.tolist(), depth + 1)}
    if isinstance(x, dict):
        return {str(k): jsonable(v, depth + 1) for k, v in x.items()}
    if isinstance(x, (list, tuple, set, frozenset)):
        xs = list(x)
        if len(xs) > 200:
            return [jsonable(v, depth + 1) for v in xs[:200]] + ["...(%d)" % len(xs)]
        return [jsonable(v, depth + 1) for v in xs]
    if isinstance(x, slice):
        return "slice(%r,%r,%r)" % (x.start, x.stop, x.step)
    return repr(x)[:300]


def h64(obj):
    if isinstance(obj, bytes):
        b = obj
    elif isinstance(obj, str):
        b = obj.encode("utf-8", "surrogatepass")
    else:
        b = json.dumps(jsonable(obj), sort_keys=True, default=repr).encode()
    return int.from_bytes(hashlib.blake2b(b, digest_size=8).digest(), "big")


class Ctx:
    """Per-worker observation store.  Everything the evidence file reports is
    counted here by the code that actually ran."""

    MAX_SAMPLES = 4

    def __init__(self, prop, tier, seed, known):
        self.prop = prop
        self.tier = tier
        self.seed = seed
        self.known = known          # list of known-finding dicts for this property
        self.stratum = None
        self.index = None
        self.ops = {}
        self.oracles = {}
        self.excs = {}
        self.notes = {}
        self.states = set()
        self.nontrivial = set()
        self.per_stratum = {}
        self.samples = []
        self.case_log = []
        self._nontrivial_flag = False
        self.status_counts = {"held": 0, "violated": 0, "inconclusive": 0}
        self.inconclusive_reasons = {}
        self.reach = None

    # ------------------------------------------------------------ counters
    def op(self, name, n=1):
        self.ops[name] = self.ops.get(name, 0) + n

    def oracle(self, name, n=1):
        self.oracles[name] = self.oracles.get(name, 0) + n

    def exc(self, e):
        name = e if isinstance(e, str) else type(e).__name__
        self.excs[name] = self.excs.get(name, 0) + 1

    def note(self, name, n=1):
        self.notes[name] = self.notes.get(name, 0) + n

    def state(self, obj):
        if len(self.states) < 2_000_000:
            self.states.add(h64(obj))

    # ------------------------------------------------------------ case log
    def log(self, *entry):
        """Append one step of the current case (shown in witnesses/samples)."""
        if len(self.case_log) < 400:
            self.case_log.append(jsonable(entry if len(entry) != 1 else entry[0]))

    def mark_nontrivial(self, flag=True):
        self._nontrivial_flag = self._nontrivial_flag or flag

    # ------------------------------------------------------------ verdicts
    def fail(self, oracle, message, **detail):
        raise Violation(oracle, message, **detail)

    def check(self, cond, oracle, message="", **detail):
        self.oracle(oracle)
        if not cond:
            raise Violation(oracle, message, **detail)

    def inconclusive(self, reason):
        raise Inconclusive(reason)

    def allowed(self, trigger):
        """False while `trigger` is the trigger class of an open known finding."""
        for k in self.known:
            if k.get("status") == "known" and trigger in k.get("triggers", []):
                return False
        return True

    # ------------------------------------------------------------ life cycle
    def begin_case(self, stratum, index):
        self.stratum, self.index = stratum, index
        self.case_log = []
        self._nontrivial_flag = False

    def end_case(self, status, reason=None):
        self.status_counts[status] += 1
        ps = self.per_stratum.setdefault(self.stratum, {"cases": 0, "nontrivial": 0, "violated": 0, "inconclusive": 0})
        ps["cases"] += 1
        if status == "violated":
            ps["violated"] += 1
        if status == "inconclusive":
            ps["inconclusive"] += 1
            self.inconclusive_reasons[reason or "?"] = self.inconclusive_reasons.get(reason or "?", 0) + 1
        if self._nontrivial_flag and status != "inconclusive":
            d = h64([self.stratum, self.case_log])
            if d not in self.nontrivial:
                self.nontrivial.add(d)
                ps["nontrivial"] += 1
            if len(self.samples) < self.MAX_SAMPLES and len(json.dumps(self.case_log)) < 6000:
                if not any(s["stratum"] == self.stratum for s in self.samples):
                    self.samples.append({"stratum": self.stratum, "index": self.index, "case": self.case_log})

    def summary(self):
        return {
            "ops": self.ops, "oracles": self.oracles, "excs": self.excs,
            "notes": self.notes, "states": sorted(self.states),
            "nontrivial": sorted(self.nontrivial), "per_stratum": self.per_stratum,
            "samples": self.samples, "status_counts": self.status_counts,
            "inconclusive_reasons": self.inconclusive_reasons,
            "reach": self.reach.counts() if self.reach else {},
        }


def case_rng(seed, prop, stratum, index):
    return np.random.default_rng(
        [int(seed) & 0xFFFFFFFF, int(prop[1:]), zlib.crc32(stratum.encode()), int(index)]
    )


# ---------------------------------------------------------------- reach counters
class Reach:
    """Counts calls of named pure-Python functions with sys.monitoring
    (PY_START on exactly those code objects; nothing else is traced)."""

    TOOL = 4

    def __init__(self, names):
        import importlib
        self._counts = {}
        self._by_code = {}
        self.unresolved = []
        mon = sys.monitoring
        try:
            mon.use_tool_id(self.TOOL, "vf-reach")
        except ValueError:
            pass
        for name in names:
            modname, qual = name.split(":")
            try:
                obj = importlib.import_module(modname)
                for part in qual.split("."):
                    obj = getattr(obj, part)
                obj = getattr(obj, "__func__", obj)
                obj = getattr(obj, "__wrapped__", obj)
                if isinstance(obj, property):
                    obj = obj.fget
                code = obj.__code__
            except Exception:
                self.unresolved.append(name)
                continue
            self._counts[name] = 0
            self._by_code[code] = name
            mon.set_local_events(self.TOOL, code, mon.events.PY_START)
        mon.register_callback(self.TOOL, mon.events.PY_START, self._cb)

    def _cb(self, code, offset):
        n = self._by_code.get(code)
        if n is not None:
            self._counts[n] += 1

    def counts(self):
        d = dict(self._counts)
        for u in self.unresolved:
            d[u] = -1
        return d


# ---------------------------------------------------------------- wrappers
def wrap_method(cls, name, post=None, pre=None, counter=None):
    """Class-level wrapper: `pre(self, args, kwargs)` before, `post(self, result,
    args, kwargs)` after a *successful* call.  Returns the original."""
    orig = cls.__dict__[name] if name in cls.__dict__ else getattr(cls, name)
    is_static = isinstance(orig, staticmethod)
    is_class = isinstance(orig, classmethod)
    fn = orig.__func__ if (is_static or is_class) else orig

    def wrapper(*args, **kwargs):
        if counter is not None:
            counter[0] += 1
        if pre is not None:
            pre(args, kwargs)
        res = fn(*args, **kwargs)
        if post is not None:
            post(res, args, kwargs)
        return res

    wrapper.__name__ = getattr(fn, "__name__", name)
    wrapper.__qualname__ = getattr(fn, "__qualname__", name)
    wrapper.__doc__ = getattr(fn, "__doc__", None)
    wrapper.__wrapped__ = fn
    if is_static:
        setattr(cls, name, staticmethod(wrapper))
    elif is_class:
        setattr(cls, name, classmethod(wrapper))
    else:
        setattr(cls, name, wrapper)
    return orig


# ---------------------------------------------------------------- purity monitor
class PurityMonitor:
    """Invariant at a hook: the listed callables must leave their arguments as they found them.

    Each listed function / method is replaced by a wrapper that takes a digest of every argument that is
    an ndarray, an AtomArray(Stack), a BondList, a Sequence, an Alignment or a short list/tuple/dict of
    those before the call and compares it afterwards (also when the call raises).  Differences are
    queued; the worker turns them into a violation of oracle `arguments_untouched` after the case.
    Functions that are documented to work in place must simply not be listed."""

    MAX_BYTES = 4_000_000

    def __init__(self):
        self.violations = []
        self.calls = {}
        self.enabled = True
        self._busy = False

    # ---- digests
    def _digest(self, x, depth=0):
        import hashlib
        try:
            if isinstance(x, np.ndarray):
                if x.dtype == object or x.nbytes > self.MAX_BYTES:
                    return None
                return ("nd", str(x.dtype), x.shape, hashlib.blake2b(np.ascontiguousarray(x).tobytes(), digest_size=8).hexdigest())
            cls = type(x).__name__
            if cls in ("AtomArray", "AtomArrayStack"):
                parts = [self._digest(x.coord, depth + 1), self._digest(x.box, depth + 1) if x.box is not None else None,
                         self._digest(x.bonds, depth + 1) if x.bonds is not None else None]
                for name in sorted(x.get_annotation_categories()):
                    parts.append((name, self._digest(x.get_annotation(name), depth + 1)))
                return (cls, tuple(parts))
            if cls == "BondList":
                return ("BondList", x.get_atom_count(), self._digest(x.as_array(), depth + 1))
            if cls == "Alignment":
                return ("Alignment", self._digest(np.asarray(x.trace), depth + 1),
                        tuple(self._digest(s, depth + 1) for s in x.sequences), repr(x.score))
            if hasattr(x, "code") and hasattr(x, "get_alphabet"):
                return (cls, self._digest(np.asarray(x.code), depth + 1))
            if cls == "SubstitutionMatrix":
                return (cls, self._digest(np.asarray(x.score_matrix()), depth + 1))
            if cls == "AffineTransformation":
                return (cls, self._digest(x.rotation, depth + 1), self._digest(x.center_translation, depth + 1),
                        self._digest(x.target_translation, depth + 1))
            if cls == "Annotation":
                return (cls, hash(frozenset(x.get_features())))
            if cls == "AnnotatedSequence":
                return (cls, self._digest(x.sequence, depth + 1), int(x.sequence_start), hash(frozenset(x.annotation.get_features())))
            if isinstance(x, (list, tuple)) and depth < 2 and len(x) <= 64:
                return (type(x).__name__, tuple(self._digest(v, depth + 1) for v in x))
            if isinstance(x, dict) and depth < 2 and len(x) <= 64:
                return ("dict", tuple((repr(k), self._digest(v, depth + 1)) for k, v in x.items()))
        except Exception:
            return None
        return None

    def _wrap(self, fn, label, skip_self):
        mon = self

        def wrapper(*args, **kwargs):
            if not mon.enabled or mon._busy:
                return fn(*args, **kwargs)          # calls made by the monitor itself (digests) pass through
            mon.calls[label] = mon.calls.get(label, 0) + 1
            watched = list(args[1:] if skip_self else args) + list(kwargs.values())
            mon._busy = True
            try:
                before = [mon._digest(a) for a in watched]
            finally:
                mon._busy = False
            try:
                return fn(*args, **kwargs)
            finally:
                mon._busy = True
                try:
                    for k, (a, b) in enumerate(zip(watched, before)):
                        if b is not None and mon._digest(a) != b and len(mon.violations) < 20:
                            mon.violations.append("%s changed its argument #%d (%s)" % (label, k, type(a).__name__))
                finally:
                    mon._busy = False
        try:
            wrapper.__dict__.update(getattr(fn, "__dict__", {}))     # keep markers other monitors put on the function
        except Exception:
            pass
        wrapper.__wrapped__ = fn
        wrapper.__name__ = getattr(fn, "__name__", "wrapped")
        wrapper.__qualname__ = getattr(fn, "__qualname__", wrapper.__name__)
        wrapper.__doc__ = getattr(fn, "__doc__", None)
        return wrapper

    def install(self, names):
        import importlib
        unresolved = []
        for name in names:
            modname, qual = name.split(":")
            watch_self = qual.endswith("!")          # "Class.method!" -> the object itself is watched as well
            qual = qual.rstrip("!")
            try:
                mod = importlib.import_module(modname)
                parts = qual.split(".")
                owner = mod
                for p in parts[:-1]:
                    owner = getattr(owner, p)
                raw = owner.__dict__[parts[-1]] if isinstance(owner, type) and parts[-1] in owner.__dict__ else getattr(owner, parts[-1])
                if isinstance(raw, staticmethod):
                    new = staticmethod(self._wrap(raw.__func__, name, False))
                elif isinstance(raw, classmethod):
                    new = classmethod(self._wrap(raw.__func__, name, True))
                else:
                    new = self._wrap(raw, name, isinstance(owner, type) and not watch_self)
                setattr(owner, parts[-1], new)
                # re-exported names (from .x import *) are rebound in the parent packages as well
                if not isinstance(owner, type):
                    pkg = modname
                    while "." in pkg:
                        pkg = pkg.rsplit(".", 1)[0]
                        pm = sys.modules.get(pkg)
                        if pm is not None and getattr(pm, parts[-1], None) is raw:
                            setattr(pm, parts[-1], new)
                self.calls.setdefault(name, 0)
            except Exception as e:      # extension types cannot be patched: say so instead of pretending
                unresolved.append("%s (%s)" % (name, type(e).__name__))
        return unresolved

    def flush(self):
        v, self.violations = self.violations, []
        return v


def through_disk(ctx, obj, cls, binary, suffix, read_kwargs=None, as_pathlib=False):
    """Write `obj` to a real file given by *path* (str or pathlib.Path) and read it back with cls.read(path):
    the branch of the file classes that opens the file itself.  Returns (object read back, raw content)."""
    import pathlib
    work = os.environ.get("VERIF_WORK") or os.getcwd()
    path = os.path.join(work, "disk-%d-%d%s" % (os.getpid(), getattr(ctx, "index", 0) or 0, suffix))
    target = pathlib.Path(path) if as_pathlib else path
    ctx.op("%s.write(path)" % cls.__name__)
    try:
        obj.write(target)
        with open(path, "rb" if binary else "r", **({} if binary else {"newline": ""})) as fh:
            raw = fh.read()
        ctx.op("%s.read(path)" % cls.__name__)
        back = cls.read(target, **(read_kwargs or {}))
    finally:
        try:
            os.remove(path)
        except OSError:
            pass
    return back, raw


def drop_defaults(ctx, kwargs, defaults, every=2):
    """Keyword arguments whose value equals the documented default are left out in every `every`-th case, so that the
    default values of the signature are exercised as well (a changed default is a behaviour change for every caller
    that relies on it)."""
    if (getattr(ctx, "index", 0) or 0) % every != 0:
        return kwargs
    out = {}
    for k, v in kwargs.items():
        if k in defaults:
            d = defaults[k]
            same = (v is d) or (type(v) is type(d) and v == d) or (isinstance(d, tuple) and isinstance(v, (list, tuple)) and len(v) == 0 and len(d) == 0)
            if same:
                continue
        out[k] = v
    return out
