"""Shared worker-side machinery: verdict exceptions, the per-worker context
(counters, case log, witness), reach counters and method wrappers."""

import hashlib
import json
import os
import sys
import zlib

import numpy as np


class Violation(Exception):
    def __init__(self, oracle, message, **detail):
        super().__init__("%s: %s" % (oracle, message))
        self.oracle = oracle
        self.message = message
        self.detail = detail


class Inconclusive(Exception):
    def __init__(self, reason):
        super().__init__(reason)
        self.reason = reason


def jsonable(x, depth=0):
    """Best-effort conversion of a case description to JSON."""
    if depth > 6:
        return repr(x)[:200]
    if x is None or isinstance(x, (bool, int, float, str)):
        if isinstance(x, float) and (x != x or x in (float("inf"), float("-inf"))):
            return repr(x)
        return x
    if isinstance(x, (np.integer,)):
        return int(x)
    if isinstance(x, (np.floating,)):
        return jsonable(float(x))
    if isinstance(x, np.bool_):
        return bool(x)
    if isinstance(x, bytes):
        return {"bytes": x.decode("latin-1")}
    if isinstance(x, np.ndarray):
        if x.size > 64:
            return {"ndarray": str(x.dtype), "shape": list(x.shape),
                    "head": jsonable(x.ravel()[:32].tolist(), depth + 1)}
        return {"ndarray": str(x.dtype), "shape": list(x.shape),
                "data": jsonable(x.tolist(), depth + 1)}
    if isinstance(x, dict):
        return {str(k): jsonable(v, depth + 1) for k, v in x.items()}
    if isinstance(x, (list, tuple, set, frozenset)):
        xs = list(x)
        if len(xs) > 200:
            return [jsonable(v, depth + 1) for v in xs[:200]] + ["...(%d)" % len(xs)]
        return [jsonable(v, depth + 1) for v in xs]
    if isinstance(x, slice):
        return "slice(%r,%r,%r)" % (x.start, x.stop, x.step)
    return repr(x)[:300]


def h64(obj):
    if isinstance(obj, bytes):
        b = obj
    elif isinstance(obj, str):
        b = obj.encode("utf-8", "surrogatepass")
    else:
        b = json.dumps(jsonable(obj), sort_keys=True, default=repr).encode()
    return int.from_bytes(hashlib.blake2b(b, digest_size=8).digest(), "big")


class Ctx:
    """Per-worker observation store.  Everything the evidence file reports is
    counted here by the code that actually ran."""

    MAX_SAMPLES = 4

    def __init__(self, prop, tier, seed, known):
        self.prop = prop
        self.tier = tier
        self.seed = seed
        self.known = known          # list of known-finding dicts for this property
        self.stratum = None
        self.index = None
        self.ops = {}
        self.oracles = {}
        self.excs = {}
        self.notes = {}
        self.states = set()
        self.nontrivial = set()
        self.per_stratum = {}
        self.samples = []
        self.case_log = []
        self._nontrivial_flag = False
        self.status_counts = {"held": 0, "violated": 0, "inconclusive": 0}
        self.inconclusive_reasons = {}
        self.reach = None

    # ------------------------------------------------------------ counters
    def op(self, name, n=1):
        self.ops[name] = self.ops.get(name, 0) + n

    def oracle(self, name, n=1):
        self.oracles[name] = self.oracles.get(name, 0) + n

    def exc(self, e):
        name = e if isinstance(e, str) else type(e).__name__
        self.excs[name] = self.excs.get(name, 0) + 1

    def note(self, name, n=1):
        self.notes[name] = self.notes.get(name, 0) + n

    def state(self, obj):
        if len(self.states) < 2_000_000:
            self.states.add(h64(obj))

    # ------------------------------------------------------------ case log
    def log(self, *entry):
        """Append one step of the current case (shown in witnesses/samples)."""
        if len(self.case_log) < 400:
            self.case_log.append(jsonable(entry if len(entry) != 1 else entry[0]))

    def mark_nontrivial(self, flag=True):
        self._nontrivial_flag = self._nontrivial_flag or flag

    # ------------------------------------------------------------ verdicts
    def fail(self, oracle, message, **detail):
        raise Violation(oracle, message, **detail)

    def check(self, cond, oracle, message="", **detail):
        self.oracle(oracle)
        if not cond:
            raise Violation(oracle, message, **detail)

    def inconclusive(self, reason):
        raise Inconclusive(reason)

    def allowed(self, trigger):
        """False while `trigger` is the trigger class of an open known finding."""
        for k in self.known:
            if k.get("status") == "known" and trigger in k.get("triggers", []):
                return False
        return True

    # ------------------------------------------------------------ life cycle
    def begin_case(self, stratum, index):
        self.stratum, self.index = stratum, index
        self.case_log = []
        self._nontrivial_flag = False

    def end_case(self, status, reason=None):
        self.status_counts[status] += 1
        ps = self.per_stratum.setdefault(self.stratum, {"cases": 0, "nontrivial": 0, "violated": 0, "inconclusive": 0})
        ps["cases"] += 1
        if status == "violated":
            ps["violated"] += 1
        if status == "inconclusive":
            ps["inconclusive"] += 1
            self.inconclusive_reasons[reason or "?"] = self.inconclusive_reasons.get(reason or "?", 0) + 1
        if self._nontrivial_flag and status != "inconclusive":
            d = h64([self.stratum, self.case_log])
            if d not in self.nontrivial:
                self.nontrivial.add(d)
                ps["nontrivial"] += 1
            if len(self.samples) < self.MAX_SAMPLES and len(json.dumps(self.case_log)) < 6000:
                if not any(s["stratum"] == self.stratum for s in self.samples):
                    self.samples.append({"stratum": self.stratum, "index": self.index, "case": self.case_log})

    def summary(self):
        return {
            "ops": self.ops, "oracles": self.oracles, "excs": self.excs,
            "notes": self.notes, "states": sorted(self.states),
            "nontrivial": sorted(self.nontrivial), "per_stratum": self.per_stratum,
            "samples": self.samples, "status_counts": self.status_counts,
            "inconclusive_reasons": self.inconclusive_reasons,
            "reach": self.reach.counts() if self.reach else {},
        }


def case_rng(seed, prop, stratum, index):
    return np.random.default_rng(
        [int(seed) & 0xFFFFFFFF, int(prop[1:]), zlib.crc32(stratum.encode()), int(index)]
    )


# ---------------------------------------------------------------- reach counters
class Reach:
    """Counts calls of named pure-Python functions with sys.monitoring
    (PY_START on exactly those code objects; nothing else is traced)."""

    TOOL = 4

    def __init__(self, names):
        import importlib
        self._counts = {}
        self._by_code = {}
        self.unresolved = []
        mon = sys.monitoring
        try:
            mon.use_tool_id(self.TOOL, "vf-reach")
        except ValueError:
            pass
        for name in names:
            modname, qual = name.split(":")
            try:
                obj = importlib.import_module(modname)
                for part in qual.split("."):
                    obj = getattr(obj, part)
                obj = getattr(obj, "__func__", obj)
                obj = getattr(obj, "__wrapped__", obj)
                if isinstance(obj, property):
                    obj = obj.fget
                code = obj.__code__
            except Exception:
                self.unresolved.append(name)
                continue
            self._counts[name] = 0
            self._by_code[code] = name
            mon.set_local_events(self.TOOL, code, mon.events.PY_START)
        mon.register_callback(self.TOOL, mon.events.PY_START, self._cb)

    def _cb(self, code, offset):
        n = self._by_code.get(code)
        if n is not None:
            self._counts[n] += 1

    def counts(self):
        d = dict(self._counts)
        for u in self.unresolved:
            d[u] = -1
        return d


# ---------------------------------------------------------------- wrappers
def wrap_method(cls, name, post=None, pre=None, counter=None):
    """Class-level wrapper: `pre(self, args, kwargs)` before, `post(self, result,
    args, kwargs)` after a *successful* call.  Returns the original."""
    orig = cls.__dict__[name] if name in cls.__dict__ else getattr(cls, name)
    is_static = isinstance(orig, staticmethod)
    is_class = isinstance(orig, classmethod)
    fn = orig.__func__ if (is_static or is_class) else orig

    def wrapper(*args, **kwargs):
        if counter is not None:
            counter[0] += 1
        if pre is not None:
            pre(args, kwargs)
        res = fn(*args, **kwargs)
        if post is not None:
            post(res, args, kwargs)
        return res

    wrapper.__name__ = getattr(fn, "__name__", name)
    wrapper.__qualname__ = getattr(fn, "__qualname__", name)
    wrapper.__doc__ = getattr(fn, "__doc__", None)
    wrapper.__wrapped__ = fn
    if is_static:
        setattr(cls, name, staticmethod(wrapper))
    elif is_class:
        setattr(cls, name, classmethod(wrapper))
    else:
        setattr(cls, name, wrapper)
    return orig
