"""Parent process of a check.  Never imports biotite.

    ./check Cxx [--tier quick|thorough] [--replay FILE] [--jobs N]

exit 0  property held on everything observed (KNOWN-FINDING lines allowed)
exit 1  VIOLATION property=<id> replay=<path>
exit 2  INCONCLUSIVE (deciding monitor not reached / watchdog / oracle self-test failed)
"""

import argparse
import hashlib
import importlib
import json
import os
import re
import shutil
import signal
import subprocess
import sys
import tempfile
import time
from concurrent.futures import ThreadPoolExecutor

VERIF = os.path.dirname(os.path.dirname(os.path.abspath(__file__)))
sys.path.insert(0, VERIF)

from vf import sanbuild  # noqa: E402

PY = "/venv/bin/python"
KNOWN_PATH = os.environ.get("VERIF_KNOWN") or os.path.join(VERIF, "known_findings.json")


def ensure_deps():
    deps = os.path.join(VERIF, ".deps")
    if os.path.isdir(os.path.join(deps, "icontract")):
        return
    os.makedirs(deps, exist_ok=True)
    subprocess.run(
        [PY, "-m", "pip", "install", "-q", "--no-index", "--find-links",
         "/opt/veriftools/wheels", "--target", deps, "icontract", "deal"],
        stdout=subprocess.DEVNULL, stderr=subprocess.DEVNULL,
    )


def load_known(prop):
    try:
        data = json.load(open(KNOWN_PATH))
    except FileNotFoundError:
        return []
    return [k for k in data.get("findings", []) if k.get("property") == prop]


def parse_san_logs(prefix_dir):
    """Return list of report dicts parsed from ASan/UBSan log files."""
    reports = []
    if not os.path.isdir(prefix_dir):
        return reports
    for fn in sorted(os.listdir(prefix_dir)):
        if not fn.startswith("san."):
            continue
        try:
            txt = open(os.path.join(prefix_dir, fn), errors="replace").read()
        except OSError:
            continue
        if not txt.strip():
            continue
        blocks = re.split(r"(?m)^(?==+\d+==ERROR|.*runtime error:)", txt)
        for b in blocks:
            if "ERROR: AddressSanitizer" in b or "runtime error:" in b:
                m = re.search(r"ERROR: AddressSanitizer: ([^\n]*)", b) or re.search(r"runtime error: ([^\n]*)", b)
                kind = m.group(1)[:160] if m else "?"
                frames = re.findall(r"#\d+ 0x[0-9a-f]+ in (\S+) ([^\n]*)", b)
                bio = [f for f in frames if "/biotite/" in f[1] or "/repo/src/" in f[1] or "__pyx_" in f[0] or "/.build/obj/" in f[1]]
                reports.append({
                    "file": fn, "kind": kind,
                    "top_biotite_frame": (bio[0][0] + " " + bio[0][1].split("/")[-1]) if bio else None,
                    "text": b[:4000],
                })
    return reports


class Run:
    def __init__(self, prop, tier, seed, jobs):
        self.prop, self.tier, self.seed, self.jobs = prop, tier, seed, jobs
        self.mod = importlib.import_module("vf.props." + prop)
        self.flavour = self.mod.FLAVOUR
        self.known = load_known(prop)
        self.work = tempfile.mkdtemp(prefix="run-%s-" % prop, dir=self._workbase())
        self.violations = []
        self.crashes = []
        self.inconclusive = []
        self.summaries = []
        self.lost_segments = 0

    @staticmethod
    def _workbase():
        d = os.path.join(VERIF, ".build", "work")
        os.makedirs(d, exist_ok=True)
        return d

    # ---------------------------------------------------------------- spawn
    def _spawn(self, tag, extra, timeout):
        journal = os.path.join(self.work, tag + ".journal")
        out = os.path.join(self.work, tag + ".summary.json")
        logdir = os.path.join(self.work, "sanlogs-" + tag)
        os.makedirs(logdir, exist_ok=True)
        env = sanbuild.worker_env(self.flavour, self.overlay, os.path.join(logdir, "san"))
        env["VERIF_TIER"] = self.tier
        env["VERIF_WORK"] = os.path.join(self.work, "scratch-" + tag)
        os.makedirs(env["VERIF_WORK"], exist_ok=True)
        cmd = [PY, "-m", "vf.worker", self.prop, "--tier", self.tier,
               "--seed", str(self.seed), "--journal", journal, "--out", out] + extra
        errf = open(os.path.join(self.work, tag + ".stderr"), "w")
        t0 = time.time()
        try:
            p = subprocess.run(cmd, env=env, cwd=env["VERIF_WORK"], stdout=errf, stderr=errf, timeout=timeout)
            rc = p.returncode
            timed_out = False
        except subprocess.TimeoutExpired:
            rc, timed_out = None, True
        errf.close()
        return {"tag": tag, "rc": rc, "timed_out": timed_out, "journal": journal, "out": out,
                "logdir": logdir, "stderr": errf.name, "wall": time.time() - t0}

    @staticmethod
    def _last_before(journal):
        last, ready = None, False
        try:
            for line in open(journal):
                try:
                    ev = json.loads(line)
                except ValueError:
                    continue
                if ev.get("ev") == "ready":
                    ready = True
                if ev.get("ev") == "before":
                    last = ev
                elif ev.get("ev") == "after" and last and ev.get("i") == last.get("i") and ev.get("stratum") == last.get("stratum"):
                    last = None
        except OSError:
            pass
        return last, ready

    def _run_job(self, w, job, timeout):
        """Run one job, restarting after a crash so the remaining cases still run."""
        attempt = 0
        while True:
            tag = "w%02d-%d" % (w, attempt)
            jobfile = os.path.join(self.work, tag + ".job.json")
            json.dump(job, open(jobfile, "w"))
            r = self._spawn(tag, ["--job", jobfile], timeout)
            reports = parse_san_logs(r["logdir"])
            if r["timed_out"]:
                self.inconclusive.append("watchdog fired for worker %s after %ds" % (tag, timeout))
                return
            if r["rc"] == 0 and os.path.exists(r["out"]):
                s = json.load(open(r["out"]))
                self.summaries.append(s)
                for rep in reports:
                    self._san_violation(rep, None)
                return
            if r["rc"] == 3:
                s = json.load(open(r["out"])) if os.path.exists(r["out"]) else {}
                self.inconclusive.append("ORACLE-SELFTEST-FAILED " + s.get("selftest_failed", "")[-1500:])
                return
            last, ready = self._last_before(r["journal"])
            err = open(r["stderr"], errors="replace").read()[-3000:]
            if last is None:
                # died outside a case: harness problem, not a verdict on biotite
                self.inconclusive.append("worker %s died outside a case (rc=%s): %s" % (tag, r["rc"], err[-800:]))
                return
            self.lost_segments += 1
            crash = {
                "stratum": last["stratum"], "index": last["i"],
                "oracle": "process_death" if not reports else "sanitizer",
                "message": "worker died (rc=%s) while executing this case" % r["rc"],
                "detail": {"stderr_tail": err, "sanitizer": [x["kind"] for x in reports],
                           "top_biotite_frame": [x["top_biotite_frame"] for x in reports],
                           "report": reports[0]["text"] if reports else None},
                "case": None,
            }
            self.violations.append(crash)
            attempt += 1
            if attempt > 6:
                self.inconclusive.append("worker %d crashed more than 6 times; remaining cases not run" % w)
                return
            job = dict(job)
            job["resume_after"] = [last["stratum"], last["i"]]
            job["selftest"] = False

    def _san_violation(self, rep, where):
        self.violations.append({
            "stratum": (where or {}).get("stratum", "?"), "index": (where or {}).get("i", -1),
            "oracle": "sanitizer", "message": rep["kind"],
            "detail": {"top_biotite_frame": rep["top_biotite_frame"], "report": rep["text"]},
            "case": None,
        })

    # ---------------------------------------------------------------- probes
    def _run_probe(self, name, timeout):
        r = self._spawn("probe-" + re.sub(r"\W", "_", name), ["--probe", name], timeout)
        reports = parse_san_logs(r["logdir"])
        res = {"probe": name, "rc": r["rc"], "failed": False, "oracle": None, "message": None}
        if r["timed_out"]:
            res.update(failed=None, message="watchdog")
            return res
        if r["rc"] == 0 and os.path.exists(r["out"]):
            s = json.load(open(r["out"]))
            self.probe_summaries.append(s)
            if s["violations"]:
                v = s["violations"][0]
                res.update(failed=True, oracle=v["oracle"], message=v["message"], violation=v)
            elif reports:
                res.update(failed=True, oracle="sanitizer", message=reports[0]["kind"],
                           violation={"stratum": "probe:" + name, "index": 0, "oracle": "sanitizer",
                                      "message": reports[0]["kind"], "detail": {"report": reports[0]["text"]}, "case": None})
            if s.get("status_counts", {}).get("inconclusive"):
                res["inconclusive"] = s.get("inconclusive_reasons")
            return res
        err = open(r["stderr"], errors="replace").read()[-2500:]
        last, ready = self._last_before(r["journal"])
        if last is None:
            res.update(failed=None, message="probe died outside its case rc=%s: %s" % (r["rc"], err[-600:]))
            return res
        kind = "sanitizer" if reports else "process_death"
        res.update(failed=True, oracle=kind,
                   message=(reports[0]["kind"] if reports else "worker died rc=%s" % r["rc"]),
                   violation={"stratum": "probe:" + name, "index": 0, "oracle": kind,
                              "message": "probe process died rc=%s" % r["rc"],
                              "detail": {"stderr_tail": err, "report": reports[0]["text"] if reports else None,
                                         "top_biotite_frame": [x["top_biotite_frame"] for x in reports]},
                              "case": None})
        return res

    # ---------------------------------------------------------------- main
    def execute(self):
        t0 = time.time()
        ensure_deps()
        self.overlay, self.build_info = sanbuild.ensure(self.flavour, verbose=True)
        for s in self.build_info["stale_cython"]:
            print("STALE-CYTHON %s (edited .pyx, generated C unchanged, no Cython here: the check runs the C that is in the tree)" % s)
        strata = {}
        for name, (q, t) in self.mod.STRATA.items():
            n = q if self.tier == "quick" else t
            if self.tier == "thorough" and t >= 5000:
                # sampled (not enumerated) strata are deepened so that a thorough run takes about ten minutes on 16 cores
                n = int(n * float(getattr(self.mod, "THOROUGH_MULT", 1.0)))
            sc = float(os.environ.get("VERIF_SCALE", "1") or 1)      # debugging aid only
            if sc != 1 and n > 0:
                n = max(1, int(n * sc))
            if n > 0:
                strata[name] = n
        nw = max(1, min(self.jobs, max(1, sum(strata.values()) // getattr(self.mod, "MIN_CASES_PER_WORKER", 20))))
        jobs = []
        for w in range(nw):
            js = {name: [w, n, nw] for name, n in strata.items() if w < n}
            if js:
                jobs.append({"strata": js, "resume_after": None, "selftest": w == 0})
        timeout = getattr(self.mod, "WATCHDOG", {"quick": 900, "thorough": 6 * 3600})[self.tier]
        self.probe_summaries = []
        probes = list(getattr(self.mod, "PROBES", {}).keys())
        with ThreadPoolExecutor(max_workers=self.jobs) as ex:
            futs = [ex.submit(self._run_job, w, job, timeout) for w, job in enumerate(jobs)]
            pfuts = [ex.submit(self._run_probe, p, min(timeout, 900)) for p in probes]
            for f in futs:
                f.result()
            probe_results = [f.result() for f in pfuts]
        for s in self.summaries:
            self.violations.extend(s.get("violations", []))
        self.wall = time.time() - t0
        return self.finish(strata, probe_results)

    def _write_replay(self, v):
        d = os.path.join(VERIF, "replays", self.prop)
        os.makedirs(d, exist_ok=True)
        body = {"property": self.prop, "tier": self.tier, "seed": self.seed,
                "stratum": v.get("stratum"), "index": v.get("index"),
                "oracle": v.get("oracle"), "message": v.get("message"),
                "detail": v.get("detail"), "case": v.get("case")}
        dig = hashlib.sha256(json.dumps(body, sort_keys=True, default=repr).encode()).hexdigest()[:16]
        path = os.path.join(d, dig + ".json")
        json.dump(body, open(path, "w"), indent=1, default=repr)
        return path

    def finish(self, strata, probe_results):
        merged = {"ops": {}, "oracles": {}, "excs": {}, "notes": {}, "reach": {},
                  "per_stratum": {}, "status_counts": {"held": 0, "violated": 0, "inconclusive": 0},
                  "inconclusive_reasons": {}}
        states, nontrivial, samples = set(), set(), []
        asan_mapped, mapped = [], set()
        for s in self.summaries + self.probe_summaries:
            is_probe = s in self.probe_summaries
            for key in ("ops", "oracles", "excs", "notes", "reach", "status_counts", "inconclusive_reasons"):
                if is_probe and key == "status_counts":
                    continue
                for k, v in s.get(key, {}).items():
                    if key == "reach" and v < 0:
                        merged[key].setdefault(k, -1)
                    else:
                        merged[key][k] = max(0, merged[key].get(k, 0)) + v
            if not is_probe:
                for k, v in s.get("per_stratum", {}).items():
                    d = merged["per_stratum"].setdefault(k, {"cases": 0, "nontrivial": 0, "violated": 0, "inconclusive": 0})
                    for kk in d:
                        d[kk] += v.get(kk, 0)
                states.update(s.get("states", []))
                nontrivial.update(s.get("nontrivial", []))
                for smp in s.get("samples", []):
                    if len(samples) < 5 and not any(x["stratum"] == smp["stratum"] for x in samples):
                        samples.append(smp)
            asan_mapped.append(bool(s.get("asan_mapped")))
            mapped.update(s.get("overlay_modules_mapped", []))

        # ---- classify probes against the known-findings file
        lines, exit_code = [], 0
        known_by_probe = {k["probe"]: k for k in self.known if k.get("probe")}
        probe_report = []
        for pr in probe_results:
            k = known_by_probe.get(pr["probe"])
            entry = {"probe": pr["probe"], "failed": pr["failed"], "oracle": pr["oracle"],
                     "message": (pr["message"] or "")[:300], "listed": k["status"] if k else None}
            if pr["failed"] is None:
                self.inconclusive.append("probe %s: %s" % (pr["probe"], pr["message"]))
            elif pr["failed"]:
                if k and k["status"] == "known" and pr["oracle"] in k.get("oracles", []):
                    lines.append("KNOWN-FINDING: property=%s %s [%s]" % (self.prop, k.get("what", k.get("probe", "?")), pr["probe"]))
                    entry["classified"] = "known-finding"
                else:
                    v = pr["violation"]
                    path = self._write_replay(dict(v, probe=pr["probe"]))
                    lines.append("VIOLATION property=%s replay=%s" % (self.prop, path))
                    lines.append("  probe=%s oracle=%s %s" % (pr["probe"], pr["oracle"], (pr["message"] or "")[:300]))
                    entry["classified"] = "violation"
                    exit_code = 1
            else:
                if k and k["status"] == "known":
                    lines.append("NOTE: known finding not reproduced by its probe: property=%s %s [%s]" % (self.prop, k.get("what", k.get("probe", "?")), pr["probe"]))
                entry["classified"] = "held"
            probe_report.append(entry)

        # ---- violations from the clean strata
        seen = set()
        nviol = 0
        for v in self.violations:
            nviol += 1
            key = (v.get("oracle"), v.get("stratum"))
            if key in seen and nviol > 3:
                continue
            seen.add(key)
            path = self._write_replay(v)
            lines.append("VIOLATION property=%s replay=%s" % (self.prop, path))
            lines.append("  stratum=%s index=%s oracle=%s %s" % (v.get("stratum"), v.get("index"), v.get("oracle"), (v.get("message") or "")[:300]))
            exit_code = 1

        evaluations = sum(d["cases"] for d in merged["per_stratum"].values())
        # ---- inconclusive conditions
        required_oracles = getattr(self.mod, "REQUIRED_ORACLES", [])
        for o in required_oracles:
            if merged["oracles"].get(o, 0) == 0:
                self.inconclusive.append("deciding oracle %s was never evaluated" % o)
        for name, cnt in merged["reach"].items():
            if cnt == 0 and name not in getattr(self.mod, "OPTIONAL_ANCHORS", []):
                self.inconclusive.append("anchor %s never reached" % name)
            if cnt < 0:
                self.inconclusive.append("anchor %s could not be resolved" % name)
        if evaluations == 0 and not self.violations:
            self.inconclusive.append("no case executed")
        if self.flavour == "san" and self.summaries and not all(asan_mapped):
            self.inconclusive.append("ASan runtime not mapped in every worker")
        if exit_code == 0 and self.inconclusive:
            exit_code = 2

        level = getattr(self.mod, "LEVEL", "exploration")
        ev = {
            "property_id": self.prop, "tier": self.tier, "seed": self.seed, "level": level,
            "coverage": {
                "evaluations": evaluations,
                "distinct_nontrivial": len(nontrivial),
                "rule": self.mod.RULE,
                "samples": samples if samples else [{"note": "no sample recorded"}],
                "strata": merged["per_stratum"],
                "operation_histogram": dict(sorted(merged["ops"].items())),
                "oracle_evaluations": dict(sorted(merged["oracles"].items())),
                "exceptions_observed": dict(sorted(merged["excs"].items())),
                "observations": dict(sorted(merged["notes"].items())),
                "distinct_states_seen": len(states),
                "anchor_reach": merged["reach"],
                "verdicts": merged["status_counts"],
                "inconclusive_reasons": merged["inconclusive_reasons"],
                "run_inconclusive": self.inconclusive,
                "probes": probe_report,
                "sanitizer": {
                    "flavour": self.flavour,
                    "asan_runtime_mapped_in_workers": sum(asan_mapped),
                    "workers": len(asan_mapped),
                    "instrumented_modules_mapped": sorted(mapped),
                    "report_blocks": sum(1 for v in self.violations if v.get("oracle") == "sanitizer"),
                    "worker_deaths": self.lost_segments,
                },
                "build": self.build_info,
                "exhaustive": bool(getattr(self.mod, "EXHAUSTIVE", False)),
            },
            "assumptions": list(getattr(self.mod, "ASSUMPTIONS", [])) + [
                "native code = the Cython-generated C present in /repo/src at run time, recompiled by the check (no Cython in this sandbox)",
            ] + ["STALE-CYTHON " + s for s in self.build_info["stale_cython"]],
            "wall_s": round(self.wall, 2),
            "violations": nviol + sum(1 for p in probe_report if p.get("classified") == "violation"),
        }
        evdir = os.environ.get("VERIF_EVIDENCE_DIR") or os.path.join(VERIF, "evidence")   # redirected only for scratch experiments
        os.makedirs(evdir, exist_ok=True)
        evpath = os.path.join(evdir, self.prop + ".json")
        with open(evpath + ".tmp", "w") as f:
            json.dump(ev, f, indent=1, default=repr)
        os.replace(evpath + ".tmp", evpath)
        self._validate(evpath)

        for ln in lines:
            print(ln)
        for r in self.inconclusive:
            print("INCONCLUSIVE property=%s reason=%s" % (self.prop, r[:600]))
        print("%s tier=%s seed=%d flavour=%s: %d cases (%d distinct non-trivial), %d oracle evaluations, %d distinct states, "
              "%d violations, %d probes, %.1fs -> exit %d"
              % (self.prop, self.tier, self.seed, self.flavour, evaluations, len(nontrivial),
                 sum(merged["oracles"].values()), len(states), ev["violations"], len(probe_report), self.wall, exit_code))
        if exit_code == 0 or os.environ.get("VERIF_KEEP_WORK") != "1":
            shutil.rmtree(self.work, ignore_errors=True)
        return exit_code

    @staticmethod
    def _validate(evpath):
        schema = "/root/.vp/EVIDENCE.schema.json"
        if not os.path.exists(schema):
            return
        p = subprocess.run(
            [PY, "-c",
             "import json,jsonschema,sys; jsonschema.validate(json.load(open(sys.argv[1])), json.load(open(sys.argv[2])))",
             evpath, schema], capture_output=True, text=True)
        if p.returncode != 0:
            print("EVIDENCE-SCHEMA-ERROR " + p.stderr[-500:])


def replay(prop, path):
    body = json.load(open(path))
    mod = importlib.import_module("vf.props." + prop)
    run = Run(prop, body.get("tier", "quick"), int(body.get("seed", 0)), 1)
    ensure_deps()
    run.overlay, run.build_info = sanbuild.ensure(run.flavour)
    run.probe_summaries = []
    stratum = body["stratum"]
    if stratum.startswith("probe:"):
        pr = run._run_probe(stratum[6:], 900)
        failed, info = pr["failed"], pr
    else:
        i = int(body["index"])
        jobfile = os.path.join(run.work, "replay.job.json")
        json.dump({"strata": {stratum: [i, i + 1, 1]}, "resume_after": None}, open(jobfile, "w"))
        r = run._spawn("replay", ["--job", jobfile], 900)
        reports = parse_san_logs(r["logdir"])
        failed, info = False, None
        if r["rc"] == 0 and os.path.exists(r["out"]):
            s = json.load(open(r["out"]))
            if s["violations"]:
                failed, info = True, s["violations"][0]
        else:
            failed, info = True, {"rc": r["rc"], "stderr": open(r["stderr"], errors="replace").read()[-2000:]}
        if reports:
            failed, info = True, {"sanitizer": reports[0]["text"]}
    print(json.dumps(info, indent=1, default=repr)[:6000])
    shutil.rmtree(run.work, ignore_errors=True)
    if failed:
        print("VIOLATION property=%s replay=%s" % (prop, path))
        return 1
    print("replay: case held")
    return 0


def main():
    ap = argparse.ArgumentParser()
    ap.add_argument("prop")
    ap.add_argument("--tier", default=os.environ.get("VERIF_TIER") or "quick", choices=["quick", "thorough"])
    ap.add_argument("--replay")
    ap.add_argument("--jobs", type=int, default=int(os.environ.get("VERIF_JOBS", "16")))
    a = ap.parse_args()
    seed = int(os.environ.get("VERIF_SEED", "0") or 0)
    if a.replay:
        sys.exit(replay(a.prop, a.replay))
    sys.exit(Run(a.prop, a.tier, seed, a.jobs).execute())


if __name__ == "__main__":
    main()
