"""Worker process: executes cases of one property against the real biotite.

    python -m vf.worker C01 --tier quick --seed 0 --job JOB.json --journal J --out SUMMARY.json
    python -m vf.worker C01 --probe NAME ...

A job is {"strata": {name: [start, stop, step]}, "resume_after": [stratum, index] | null}.
One JSON line is appended to the journal *before* each case and one after.
"""

import argparse
import faulthandler
import importlib
import json
import os
import sys
import time
import traceback

from vf.core import Ctx, Inconclusive, Reach, Violation, case_rng, jsonable


def load_known(prop):
    path = os.environ.get("VERIF_KNOWN") or os.path.join(
        os.path.dirname(os.path.dirname(os.path.abspath(__file__))), "known_findings.json")
    try:
        data = json.load(open(path))
    except FileNotFoundError:
        return []
    return [k for k in data.get("findings", []) if k.get("property") == prop]


def main():
    ap = argparse.ArgumentParser()
    ap.add_argument("prop")
    ap.add_argument("--tier", default="quick")
    ap.add_argument("--seed", type=int, default=0)
    ap.add_argument("--job")
    ap.add_argument("--probe")
    ap.add_argument("--journal", required=True)
    ap.add_argument("--out", required=True)
    ap.add_argument("--max-violations", type=int, default=25)
    a = ap.parse_args()

    if "asan" not in os.environ.get("LD_PRELOAD", ""):
        faulthandler.enable(all_threads=True)     # under ASan its own SEGV handler reports
    jf = open(a.journal, "a", buffering=1)

    def jwrite(**kw):
        jf.write(json.dumps(kw, default=repr) + "\n")
        jf.flush()

    mod = importlib.import_module("vf.props." + a.prop)
    ctx = Ctx(a.prop, a.tier, a.seed, load_known(a.prop))
    t0 = time.time()
    jwrite(ev="setup")
    mod.setup(ctx)
    anchors = getattr(mod, "ANCHORS", [])
    if anchors:
        ctx.reach = Reach(anchors)
    ctx.purity = None
    pure = getattr(mod, "PURE", [])
    if pure:
        from vf.core import PurityMonitor
        ctx.purity = PurityMonitor()
        unresolved = ctx.purity.install(pure)
        for u in unresolved:
            ctx.note("purity_monitor_unresolved:" + u)
    import biotite
    jwrite(ev="ready", biotite=biotite.__file__, setup_s=round(time.time() - t0, 2))

    violations = []

    def run_one(stratum, index, fn):
        ctx.begin_case(stratum, index)
        jwrite(ev="before", stratum=stratum, i=index)
        status, reason = "held", None
        if ctx.purity is not None:
            ctx.purity.flush()
        try:
            fn()
            if ctx.purity is not None:
                ctx.oracles["arguments_untouched_hook"] = sum(ctx.purity.calls.values())
                leaked = ctx.purity.flush()
                if leaked:
                    raise Violation("arguments_untouched_hook", "; ".join(leaked[:4]))
        except Violation as v:
            status = "violated"
            violations.append({
                "stratum": stratum, "index": index, "oracle": v.oracle,
                "message": v.message[:2000], "detail": jsonable(v.detail),
                "case": list(ctx.case_log),
            })
        except Inconclusive as e:
            status, reason = "inconclusive", e.reason
        except (KeyboardInterrupt, SystemExit):
            raise
        except BaseException as e:  # an exception the driver did not anticipate
            status = "violated"
            tb = traceback.format_exc()
            violations.append({
                "stratum": stratum, "index": index,
                "oracle": "unexpected_exception:" + type(e).__name__,
                "message": (str(e) or type(e).__name__)[:2000], "detail": {"traceback": tb[-3000:]},
                "case": list(ctx.case_log),
            })
        ctx.end_case(status, reason)
        jwrite(ev="after", stratum=stratum, i=index, status=status)

    if a.probe:
        fn = mod.PROBES[a.probe]
        run_one("probe:" + a.probe, 0, lambda: fn(ctx))
    else:
        job = json.load(open(a.job))
        if hasattr(mod, "selftest") and job.get("selftest"):
            jwrite(ev="selftest")
            try:
                mod.selftest(ctx)
            except BaseException as e:
                jwrite(ev="selftest_failed", error=traceback.format_exc()[-3000:])
                json.dump({"selftest_failed": traceback.format_exc()[-3000:]}, open(a.out, "w"))
                sys.exit(3)
        resume = job.get("resume_after")
        skipping = resume is not None
        for stratum, (start, stop, step) in job["strata"].items():
            for i in range(start, stop, step):
                if skipping:
                    if [stratum, i] == list(resume):
                        skipping = False
                    continue
                rng = case_rng(a.seed, a.prop, stratum, i)
                run_one(stratum, i, lambda: mod.run_case(stratum, rng, ctx))
                if len(violations) >= a.max_violations:
                    break
            if len(violations) >= a.max_violations:
                break
    if hasattr(mod, "teardown"):
        mod.teardown(ctx)
    s = ctx.summary()
    s["violations"] = violations
    s["wall_s"] = round(time.time() - t0, 2)
    s["biotite_file"] = biotite.__file__
    try:
        maps = open("/proc/self/maps").read()
        s["asan_mapped"] = "libclang_rt.asan" in maps
        s["overlay_modules_mapped"] = sorted({
            line.split("/")[-1].split("-")[0]
            for line in maps.splitlines() if "/.build/obj/" in line
        })
    except OSError:
        pass
    with open(a.out + ".tmp", "w") as f:
        json.dump(s, f, default=repr)
    os.replace(a.out + ".tmp", a.out)
    jwrite(ev="done")


if __name__ == "__main__":
    main()
