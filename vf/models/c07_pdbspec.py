"""Independent reference material for C07, written from the wwPDB format
description v3.3 (ATOM/HETATM/CRYST1/CONECT column tables) and from the
hybrid-36 definition (R. Grosse-Kunstleve, cctbx iotbx/pdb/hybrid_36).
Nothing here imports biotite.

Column table used (1-based, inclusive):
  ATOM/HETATM  1-6 record | 7-11 serial (right) | 12 blank | 13-16 atom name | 17 altLoc |
               18-20 resName | 21 blank | 22 chainID | 23-26 resSeq (right) | 27 iCode | 28-30 blank |
               31-38 x, 39-46 y, 47-54 z Real(8.3) | 55-60 occupancy, 61-66 tempFactor Real(6.2) |
               67-76 blank | 77-78 element (right) | 79-80 charge (digit then sign, or blank)
  CRYST1       7-15 a, 16-24 b, 25-33 c Real(9.3) | 34-40 alpha, 41-47 beta, 48-54 gamma Real(7.2)
  CONECT       7-11 serial | 12-16, 17-21, 22-26, 27-31 bonded serials
  atom names: the element symbol is right-justified in columns 13-14, i.e. a name that begins
  with a one-letter element symbol starts in column 14 unless it has four characters, a name that
  begins with a two-letter symbol starts in column 13.
"""

import math
import re

import numpy as np

# ------------------------------------------------------------------ hybrid-36
DIG_U = "0123456789ABCDEFGHIJKLMNOPQRSTUVWXYZ"
DIG_L = "0123456789abcdefghijklmnopqrstuvwxyz"


def hy_max(width):
    return 10 ** width + 2 * 26 * 36 ** (width - 1) - 1


def ref_encode(width, value):
    """hybrid-36 string of `value` (without padding).  Decimal while it fits
    (including negative numbers that fit), then upper-case base 36 starting at
    'A00..', then lower-case base 36 starting at 'a00..'."""
    if 1 - 10 ** (width - 1) <= value < 10 ** width:
        return str(value)
    if value < 0:
        raise ValueError("value out of range")
    v = value - 10 ** width
    span = 26 * 36 ** (width - 1)
    for digits in (DIG_U, DIG_L):
        if v < span:
            v += 10 * 36 ** (width - 1)
            s = ""
            for _ in range(width):
                v, r = divmod(v, 36)
                s = digits[r] + s
            return s
        v -= span
    raise ValueError("value out of range")


_DEC = re.compile(r"-?[0-9]+\Z")


def ref_decode(width, field):
    """Value of a hybrid-36 field (padded or not).  Raises ValueError for anything
    that is not a decimal integer or a pure upper / pure lower base-36 word of
    exactly `width` characters starting with a letter."""
    t = field.strip(" ")
    if not t or len(t) > width:
        raise ValueError("invalid number literal")
    c = t[0]
    if c == "-" or c in "0123456789":
        if not _DEC.match(t):
            raise ValueError("invalid number literal")
        return int(t)
    for digits, extra in ((DIG_U, 0), (DIG_L, 26 * 36 ** (width - 1))):
        if c in digits[10:]:
            if len(t) != width or any(ch not in digits for ch in t):
                raise ValueError("invalid number literal")
            v = 0
            for ch in t:
                v = v * 36 + digits.index(ch)
            return v - 10 * 36 ** (width - 1) + 10 ** width + extra
    raise ValueError("invalid number literal")


def ref_encode_range(width, a, b):
    """Vectorised ref_encode for a..b-1 (all within 0..hy_max) -> ndarray of str."""
    v = np.arange(a, b, dtype=np.int64)
    out = np.empty(len(v), dtype="<U%d" % width)
    p, span, off = 10 ** width, 26 * 36 ** (width - 1), 10 * 36 ** (width - 1)
    dec = v < p
    if dec.any():
        out[dec] = v[dec].astype("<U%d" % width)
    for k, digits in enumerate((DIG_U, DIG_L)):
        m = (v >= p + k * span) & (v < p + (k + 1) * span)
        if m.any():
            x = v[m] - p - k * span + off
            codes = np.frombuffer(digits.encode("ascii"), dtype=np.uint8).astype("<u4")
            cols = np.empty((len(x), width), dtype="<u4")
            for pos in range(width - 1, -1, -1):
                cols[:, pos] = codes[x % 36]
                x = x // 36
            out[m] = np.ascontiguousarray(cols).view("<U%d" % width).ravel()
    return out


# ------------------------------------------------------------------ fixed-point fields
def finite(v):
    v = float(v)
    return v == v and v not in (float("inf"), float("-inf"))


def fmt_fits(v, nd, width):
    """Does the value, rounded to `nd` decimals, fit a Real(width.nd) field?"""
    return finite(v) and len("%.*f" % (nd, float(v))) <= width


def round_edge(v, nd, width):
    """Fits when cut off after `nd` decimals, but not when rounded to them."""
    if not finite(v) or fmt_fits(v, nd, width):
        return False
    t = math.trunc(float(v) * 10 ** nd) / 10 ** nd
    return fmt_fits(t, nd, width)


def id_class(v, width, hybrid):
    """'fit' | 'wrap' (beyond the decimal columns, plain mode) | 'too_wide'
    (negative, needs more columns) | 'too_large' (beyond hybrid-36) |
    'neg_hybrid' (negative number in hybrid-36 mode that would fit as decimal)."""
    v = int(v)
    if v < 1 - 10 ** (width - 1):
        return "too_wide"
    if hybrid:
        if v < 0:
            return "neg_hybrid"
        return "fit" if v <= hy_max(width) else "too_large"
    return "wrap" if v >= 10 ** width else "fit"


# ------------------------------------------------------------------ ATOM/HETATM checker
_REAL3 = re.compile(r" *-?[0-9]+\.[0-9]{3}\Z")
_REAL2 = re.compile(r" *-?[0-9]+\.[0-9]{2}\Z")


def _int_field(s, width, hybrid):
    if len(s) != width or s != s.strip(" ").rjust(width) or not s.strip(" "):
        raise ValueError("not a right-justified %d-column field: %r" % (width, s))
    if hybrid:
        return ref_decode(width, s)
    if not _DEC.match(s.strip(" ")):
        raise ValueError("not a decimal integer: %r" % s)
    return int(s)


def slice_atom_line(line):
    """Cut an ATOM/HETATM record into its standard columns (no interpretation)."""
    return {
        "record": line[0:6], "serial": line[6:11], "b12": line[11:12], "name": line[12:16],
        "altloc": line[16:17], "resname": line[17:20], "b21": line[20:21], "chain": line[21:22],
        "resseq": line[22:26], "icode": line[26:27], "b28": line[27:30],
        "x": line[30:38], "y": line[38:46], "z": line[46:54],
        "occ": line[54:60], "temp": line[60:66], "b67": line[66:76],
        "element": line[76:78], "charge": line[78:80],
    }


def check_atom_line(line, exp, hybrid=False):
    """Return None if `line` is a well-formed ATOM/HETATM record that carries the
    expected values, else a short description of the first problem.

    exp: dict with hetero, serial (int or None = any value that fits), atom_name,
    element, res_name, chain, res_id (int or None), ins, xyz (3 floats), occ, temp,
    charge (int)."""
    if len(line) != 80:
        return "record has %d columns instead of 80" % len(line)
    if "\n" in line or "\r" in line:
        return "line break inside record"
    f = slice_atom_line(line)
    if f["record"] != ("HETATM" if exp["hetero"] else "ATOM  "):
        return "record name %r" % f["record"]
    try:
        serial = _int_field(f["serial"], 5, hybrid)
    except ValueError as e:
        return "serial (7-11): %s" % e
    if exp["serial"] is not None and serial != exp["serial"]:
        return "serial (7-11) %r is %d, expected %d" % (f["serial"], serial, exp["serial"])
    for key, cols in (("b12", "12"), ("b21", "21"), ("b28", "28-30"), ("b67", "67-76")):
        if f[key].strip(" "):
            return "columns %s not blank: %r" % (cols, f[key])
    name, elem = exp["atom_name"], exp["element"]
    if f["name"].strip(" ") != name:
        return "atom name (13-16) %r, expected %r" % (f["name"], name)
    if 0 < len(name) < 4 and elem and name.upper().startswith(elem.upper()):
        start = 1 if len(elem) == 1 else 0
        if f["name"][start:start + len(name)] != name or (start == 1 and f["name"][0] != " "):
            return "atom name %r with element %r must start in column %d: %r" % (name, elem, 13 + start, f["name"])
    if f["altloc"] != " ":
        return "altLoc (17) %r" % f["altloc"]
    if f["resname"].strip(" ") != exp["res_name"]:
        return "resName (18-20) %r, expected %r" % (f["resname"], exp["res_name"])
    if f["resname"] != exp["res_name"].rjust(3):
        # the residue name field is right-justified (' DA', '  A', ' ZN'): this is how every deposited file and every
        # other PDB reader lays out one- and two-letter residue names
        return "resName (18-20) %r is not right-justified (expected %r)" % (f["resname"], exp["res_name"].rjust(3))
    if f["chain"] != (exp["chain"] or " "):
        return "chainID (22) %r, expected %r" % (f["chain"], exp["chain"])
    try:
        resseq = _int_field(f["resseq"], 4, hybrid)
    except ValueError as e:
        return "resSeq (23-26): %s" % e
    if exp["res_id"] is not None and resseq != exp["res_id"]:
        return "resSeq (23-26) %r is %d, expected %d" % (f["resseq"], resseq, exp["res_id"])
    if f["icode"] != (exp["ins"] or " "):
        return "iCode (27) %r, expected %r" % (f["icode"], exp["ins"])
    for key, cols, val in (("x", "31-38", exp["xyz"][0]), ("y", "39-46", exp["xyz"][1]), ("z", "47-54", exp["xyz"][2])):
        if not _REAL3.match(f[key]):
            return "%s (%s) is not Real(8.3): %r" % (key, cols, f[key])
        if abs(float(f[key]) - float(val)) > 0.0005 * (1 + 1e-9) + 1e-12:
            return "%s (%s) %r differs from %r by more than 0.0005" % (key, cols, f[key], float(val))
    for key, cols, val in (("occ", "55-60", exp["occ"]), ("temp", "61-66", exp["temp"])):
        if not _REAL2.match(f[key]):
            return "%s (%s) is not Real(6.2): %r" % (key, cols, f[key])
        if abs(float(f[key]) - float(val)) > 0.005 * (1 + 1e-9) + 1e-12:
            return "%s (%s) %r differs from %r by more than 0.005" % (key, cols, f[key], float(val))
    if f["element"] != elem.rjust(2):
        return "element (77-78) %r, expected %r" % (f["element"], elem.rjust(2))
    c = int(exp["charge"])
    want = "  " if c == 0 else "%d%s" % (abs(c), "+" if c > 0 else "-")
    if f["charge"] != want:
        return "charge (79-80) %r, expected %r" % (f["charge"], want)
    return None


def generic_atom_line_problem(line, hybrid=False):
    """Format-only check (no expected values): 80 columns, numeric fields parse,
    blank columns blank."""
    if len(line) != 80:
        return "record has %d columns instead of 80" % len(line)
    f = slice_atom_line(line)
    try:
        _int_field(f["serial"], 5, hybrid)
        _int_field(f["resseq"], 4, hybrid)
    except ValueError as e:
        return str(e)
    for key in ("b12", "b21", "b28", "b67"):
        if f[key].strip(" "):
            return "blank columns occupied: %r" % f[key]
    for key in ("x", "y", "z"):
        if not _REAL3.match(f[key]):
            return "%s is not Real(8.3): %r" % (key, f[key])
    for key in ("occ", "temp"):
        if not _REAL2.match(f[key]):
            return "%s is not Real(6.2): %r" % (key, f[key])
    if not re.match(r"(  |[0-9][+-])\Z", f["charge"]):
        return "charge %r" % f["charge"]
    return None


def parse_conect(lines, hybrid=False):
    """[(center_serial, bonded_serial), ...] from the CONECT records, strictly by columns."""
    out = []
    for line in lines:
        if not line.startswith("CONECT"):
            continue
        if len(line) > 80:
            raise ValueError("CONECT record longer than 80 columns: %r" % line)
        body = line.ljust(31)
        if body[31:].strip(" "):
            raise ValueError("CONECT record has text after column 31: %r" % line)
        center = _int_field(body[6:11], 5, hybrid)
        seen = False
        for k in range(11, 31, 5):
            fld = body[k:k + 5]
            if not fld.strip(" "):
                continue
            out.append((center, _int_field(fld, 5, hybrid)))
            seen = True
        if not seen:
            raise ValueError("CONECT record without bonded atom: %r" % line)
    return out


def parse_cryst1(line):
    if not line.startswith("CRYST1") or len(line) != 80:
        raise ValueError("CRYST1 record malformed (%d columns): %r" % (len(line), line))
    vals = []
    for a, b, pat in ((6, 15, r" *-?[0-9]+\.[0-9]{3}\Z"), (15, 24, None), (24, 33, None),
                      (33, 40, r" *-?[0-9]+\.[0-9]{2}\Z"), (40, 47, None), (47, 54, None)):
        pat = pat or last
        last = pat
        if not re.match(pat, line[a:b]):
            raise ValueError("CRYST1 columns %d-%d: %r" % (a + 1, b, line[a:b]))
        vals.append(float(line[a:b]))
    return vals


# ------------------------------------------------------------------ unit cell
def cell_to_vectors(a, b, c, alpha, beta, gamma):
    """Standard orientation (a along x, b in the xy plane); angles in degrees; float64."""
    al, be, ga = (math.radians(x) for x in (alpha, beta, gamma))
    bx, by = b * math.cos(ga), b * math.sin(ga)
    cx = c * math.cos(be)
    cy = c * (math.cos(al) - math.cos(be) * math.cos(ga)) / math.sin(ga)
    cz2 = c * c - cx * cx - cy * cy
    if cz2 <= 0:
        raise ValueError("not a cell")
    return [[a, 0.0, 0.0], [bx, by, 0.0], [cx, cy, math.sqrt(cz2)]]


def vectors_to_cell(box):
    """(a, b, c, alpha, beta, gamma) in A / degrees from three vectors; float64."""
    v = np.asarray(box, dtype=np.float64)
    ln = [math.sqrt(float(np.dot(x, x))) for x in v]

    def ang(p, q):
        cs = float(np.dot(v[p], v[q])) / (ln[p] * ln[q])
        return math.degrees(math.acos(max(-1.0, min(1.0, cs))))
    return (ln[0], ln[1], ln[2], ang(1, 2), ang(0, 2), ang(0, 1))


# ------------------------------------------------------------------ residues / bonds
def segment(chain, res_id, ins, res_name):
    """Residue index per atom: a new residue starts when any of the four differs
    from the previous atom."""
    out, cur, prev = [], -1, None
    for key in zip(chain, res_id, ins, res_name):
        if key != prev:
            cur += 1
            prev = key
        out.append(cur)
    return out
