"""Reference models for C03 (pure Python, no biotite import).

* dict codec (symbol <-> index)
* radix k-mer codes (contiguous and spaced)
* IUPAC complement table
* NCBI genetic codes (standard code + documented differences), start codons
* per-codon translation and naive ORF scan
"""

import itertools

PRINTABLE = [chr(c) for c in range(33, 127)]        # the 94 printable non-blank ASCII letters
NUC_UNAMB = list("ACGT")
NUC_AMB = list("ACGTRYWSMKHBVDN")
PROT = list("ACDEFGHIKLMNPQRSTVWYBZX*")

# ----------------------------------------------------------------- codec
class RefCodec:
    """Symbol list with pairwise distinct symbols; code = position."""

    def __init__(self, symbols):
        self.symbols = list(symbols)
        self.index = {}
        for i, s in enumerate(self.symbols):
            if s in self.index:
                raise ValueError("duplicate symbol in reference alphabet")
            self.index[s] = i

    def __len__(self):
        return len(self.symbols)

    def has(self, s):
        try:
            return s in self.index
        except TypeError:
            return False

    def encode(self, seq):
        return [self.index[s] for s in seq]

    def valid_code(self, c):
        return 0 <= c < len(self.symbols)

    def decode(self, codes):
        out = []
        for c in codes:
            if not 0 <= c < len(self.symbols):
                raise IndexError(c)
            out.append(self.symbols[c])
        return out


# ----------------------------------------------------------------- k-mers
def kmer_code(codes, n):
    v = 0
    for c in codes:
        v = v * n + c
    return v


def kmer_split(value, n, k):
    out = []
    for _ in range(k):
        out.append(value % n)
        value //= n
    return out[::-1]


def naive_kmers(codes, n, positions):
    """positions: sorted informative offsets (contiguous = range(k))."""
    span = positions[-1] + 1
    return [kmer_code([codes[i + p] for p in positions], n) for i in range(len(codes) - span + 1)]


# ----------------------------------------------------------------- complement
IUPAC_COMPLEMENT = {
    "A": "T", "C": "G", "G": "C", "T": "A",
    "R": "Y", "Y": "R", "W": "W", "S": "S", "M": "K", "K": "M",
    "H": "D", "D": "H", "B": "V", "V": "B", "N": "N",
}
IUPAC_SETS = {
    "A": "A", "C": "C", "G": "G", "T": "T",
    "R": "AG", "Y": "CT", "W": "AT", "S": "CG", "M": "AC", "K": "GT",
    "H": "ACT", "B": "CGT", "V": "ACG", "D": "AGT", "N": "ACGT",
}


# ----------------------------------------------------------------- genetic codes
BASES = "TCAG"
CODONS = ["".join(c) for c in itertools.product(BASES, repeat=3)]      # NCBI order TTT, TTC, TTA, TTG, TCT, ...
STANDARD_AA = "FFLLSSSSYY**CC*WLLLLPPPPHHQQRRRRIIIMTTTTNNKKSSRRVVVVAAAADDEEGGGG"

# "Differences from the Standard Code" as documented by NCBI (The Genetic Codes)
NCBI_DIFF = {
    1: {},
    2: {"AGA": "*", "AGG": "*", "ATA": "M", "TGA": "W"},
    3: {"ATA": "M", "CTT": "T", "CTC": "T", "CTA": "T", "CTG": "T", "TGA": "W"},
    4: {"TGA": "W"},
    5: {"AGA": "S", "AGG": "S", "ATA": "M", "TGA": "W"},
    6: {"TAA": "Q", "TAG": "Q"},
    9: {"AAA": "N", "AGA": "S", "AGG": "S", "TGA": "W"},
    10: {"TGA": "C"},
    11: {},
    12: {"CTG": "S"},
    13: {"AGA": "G", "AGG": "G", "ATA": "M", "TGA": "W"},
    14: {"AAA": "N", "AGA": "S", "AGG": "S", "TAA": "Y", "TGA": "W"},
    15: {"TAG": "Q"},
    16: {"TAG": "L"},
    21: {"TGA": "W", "ATA": "M", "AGA": "S", "AGG": "S", "AAA": "N"},
    22: {"TCA": "*", "TAG": "L"},
    23: {"TTA": "*"},
    24: {"AGA": "S", "AGG": "K", "TGA": "W"},
    25: {"TGA": "G"},
    26: {"CTG": "A"},
    27: {"TAA": "Q", "TAG": "Q", "TGA": "W"},
    28: {"TAA": "Q", "TAG": "Q", "TGA": "W"},
    29: {"TAA": "Y", "TAG": "Y"},
    30: {"TAA": "E", "TAG": "E"},
    31: {"TGA": "W", "TAA": "E", "TAG": "E"},
}
# Where the table file shipped with biotite deviates from the NCBI text above.
# This is a question about the *data*, outside the statement of C03 ("lookup in
# the chosen codon table"): the reference follows the shipped data and the
# deviation is counted as an observation, not judged.
SHIPPED_DATA_DEVIATION = {
    27: {"CTG": "A"}, 28: {"CTG": "A"}, 29: {"CTG": "A"}, 30: {"CTG": "A"},
}
NCBI_STARTS = {
    1: ["TTG", "CTG", "ATG"],
    2: ["ATT", "ATC", "ATA", "ATG", "GTG"],
    3: ["ATA", "ATG"],
    4: ["TTA", "TTG", "CTG", "ATT", "ATC", "ATA", "ATG", "GTG"],
    5: ["TTG", "ATT", "ATC", "ATA", "ATG", "GTG"],
    6: ["ATG"],
    9: ["ATG", "GTG"],
    10: ["ATG"],
    11: ["TTG", "CTG", "ATT", "ATC", "ATA", "ATG", "GTG"],
    12: ["CTG", "ATG"],
    13: ["TTG", "ATA", "ATG", "GTG"],
    14: ["ATG"], 15: ["ATG"], 16: ["ATG"],
    21: ["ATG", "GTG"],
    22: ["ATG"],
    23: ["ATT", "ATG", "GTG"],
    24: ["TTG", "CTG", "ATG", "GTG"],
    25: ["TTG", "ATG", "GTG"],
    26: ["CTG", "ATG"],
    27: ["ATG"], 28: ["ATG"], 29: ["ATG"], 30: ["ATG"], 31: ["ATG"],
}
TABLE_NAMES = {
    1: ["Standard"],
    2: ["Vertebrate Mitochondrial"],
    3: ["Yeast Mitochondrial"],
    4: ["Mold Mitochondrial", "Protozoan Mitochondrial", "Coelenterate Mitochondrial", "Mycoplasma", "Spiroplasma"],
    5: ["Invertebrate Mitochondrial"],
    6: ["Ciliate Nuclear", "Dasycladacean Nuclear", "Hexamita Nuclear"],
    9: ["Echinoderm Mitochondrial", "Flatworm Mitochondrial"],
    10: ["Euplotid Nuclear"],
    11: ["Bacterial, Archaeal and Plant Plastid"],
    12: ["Alternative Yeast Nuclear"],
    13: ["Ascidian Mitochondrial"],
    14: ["Alternative Flatworm Mitochondrial"],
    15: ["Blepharisma Macronuclear"],
    16: ["Chlorophycean Mitochondrial"],
    21: ["Trematode Mitochondrial"],
    22: ["Scenedesmus obliquus Mitochondrial"],
    23: ["Thraustochytrium Mitochondrial"],
    24: ["Pterobranchia Mitochondrial"],
    25: ["Candidate Division SR1 and Gracilibacteria"],
    26: ["Pachysolen tannophilus Nuclear"],
    27: ["Karyorelict Nuclear"],
    28: ["Condylostoma Nuclear"],
    29: ["Mesodinium Nuclear"],
    30: ["Peritrich Nuclear"],
    31: ["Blastocrithidia Nuclear"],
}
TABLE_IDS = sorted(NCBI_DIFF)


def codon_index(codon):
    return 16 * BASES.index(codon[0]) + 4 * BASES.index(codon[1]) + BASES.index(codon[2])


def aa64_from_diff(diff):
    aa = list(STANDARD_AA)
    for codon, a in diff.items():
        aa[codon_index(codon)] = a
    return "".join(aa)


def ncbi_table(table_id, shipped=True):
    """(aa64 in TCAG order, set of start codons)."""
    diff = dict(NCBI_DIFF[table_id])
    if shipped:
        diff.update(SHIPPED_DATA_DEVIATION.get(table_id, {}))
    return aa64_from_diff(diff), set(NCBI_STARTS[table_id])


def aa64_from_dict(d):
    return "".join(d[c] for c in CODONS)


def translate_complete(dna, aa64):
    assert len(dna) % 3 == 0
    return "".join(aa64[codon_index(dna[i:i + 3])] for i in range(0, len(dna), 3))


def orf_scan(dna, aa64, starts, met_start=False):
    """All ORFs: for every frame, from each in-frame start codon to the first
    in-frame stop codon (inclusive) or the end of the frame.
    Returns sorted [(start, exclusive_stop, protein)]."""
    out = []
    for shift in range(3):
        ncod = (len(dna) - shift) // 3
        cods = [dna[shift + 3 * i: shift + 3 * i + 3] for i in range(ncod)]
        for i, c in enumerate(cods):
            if c not in starts:
                continue
            prot = []
            j = i
            while j < ncod:
                a = aa64[codon_index(cods[j])]
                prot.append(a)
                j += 1
                if a == "*":
                    break
            p = "".join(prot)
            if met_start:
                p = "M" + p[1:]
            out.append((shift + 3 * i, shift + 3 * j, p))
    return sorted(out)


def orf_scan_bruteforce(dna, aa64, starts, met_start=False):
    """Independent formulation used only to audit orf_scan: iterate over
    nucleotide positions, look for the first stop at p, p+3, p+6, ..."""
    out = []
    L = len(dna)
    for p in range(L - 2):
        if dna[p:p + 3] not in starts:
            continue
        stops = [q for q in range(p, L - 2, 3) if aa64[codon_index(dna[q:q + 3])] == "*"]
        end = stops[0] + 3 if stops else p + ((L - p) // 3) * 3
        prot = "".join(aa64[codon_index(dna[q:q + 3])] for q in range(p, end, 3))
        if met_start:
            prot = "M" + prot[1:]
        out.append((p, end, prot))
    return sorted(out)
