"""Independent CTfile (MOL V2000 / V3000) text checkers for C18.

Written from the BIOVIA "CTfile formats" specification; nothing here imports
biotite.  `parse_v2000` slices every line by the *specified* columns and raises
`ColumnError` when a field is not where the specification puts it;
`parse_v3000` tokenises the V3000 blocks.  Both return a plain dict that the
driver compares with the molecule that was written.

V2000 layout (1-based columns in the specification, 0-based slices here):

counts line   aaabbblllfffcccsssxxxrrrpppiiimmmvvvvvv            (39 columns)
atom line     xxxxx.xxxxyyyyy.yyyyzzzzz.zzzz aaaddcccssshhhbbbvvvHHHrrriiimmmnnneee
              x 0:10, y 10:20, z 20:30 (F10.4), blank 30, symbol 31:34 (left
              justified), mass difference 34:36, charge code 36:39, then 3-column
              integer fields up to column 69
bond line     111222tttsssxxxrrrccc  (7 fields of 3 columns; the first three are mandatory)
charge line   M  CHGnn8 aaa vvv ...  (nn8 in 6:9, then nn8 entries of " aaa vvv")
"""

import re

MAX_LINE = 80

# atom block charge code -> formal charge (4 = doublet radical, carries no charge)
ATOM_BLOCK_CHARGE = {0: 0, 1: 3, 2: 2, 3: 1, 4: 0, 5: -1, 6: -2, 7: -3}
ATOM_BLOCK_CODE = {3: 1, 2: 2, 1: 3, -1: 5, -2: 6, -3: 7}

_INT_RJ = re.compile(r"^ *-?\d+$")
_F10_4 = re.compile(r"^ *-?\d+\.\d{4}$")
_SYMBOL = re.compile(r"^[A-Za-z*#][A-Za-z#]{0,2} *$")
_V30_FLOAT = re.compile(r"^-?\d+(\.\d*)?$")


class ColumnError(Exception):
    pass


def _int_field(text, width, what, lineno, blank_ok=False):
    if len(text) != width:
        raise ColumnError("line %d: field %s is cut off (%r, needs %d columns)" % (lineno, what, text, width))
    if blank_ok and text.strip() == "":
        return 0
    if not _INT_RJ.match(text):
        raise ColumnError("line %d: field %s = %r is not a right-justified integer in %d columns"
                          % (lineno, what, text, width))
    return int(text)


def parse_v2000(lines):
    """`lines`: the connection table from the counts line to 'M  END'."""
    if not lines:
        raise ColumnError("empty connection table")
    for k, line in enumerate(lines):
        if len(line) > MAX_LINE:
            raise ColumnError("line %d longer than %d characters" % (k, MAX_LINE))
        if "\n" in line or "\r" in line:
            raise ColumnError("line %d contains a line break" % k)
    counts = lines[0]
    if len(counts) != 39:
        raise ColumnError("counts line has %d columns instead of 39: %r" % (len(counts), counts))
    if counts[33:39] != " V2000":
        raise ColumnError("version field (columns 34-39) is %r" % counts[33:39])
    na = _int_field(counts[0:3], 3, "aaa", 0)
    nb = _int_field(counts[3:6], 3, "bbb", 0)
    if na < 0 or nb < 0:
        raise ColumnError("negative count")
    for k, name in enumerate(["lll", "fff", "ccc", "sss", "xxx", "rrr", "ppp", "iii", "mmm"]):
        _int_field(counts[6 + 3 * k: 9 + 3 * k], 3, name, 0, blank_ok=True)
    if len(lines) < 1 + na + nb + 1:
        raise ColumnError("counts line announces %d atoms and %d bonds but the table has %d lines"
                          % (na, nb, len(lines)))
    coords, symbols, codes = [], [], []
    for a in range(na):
        ln = 1 + a
        line = lines[ln]
        if len(line) < 39 or len(line) > 69:
            raise ColumnError("atom line %d has %d columns (39..69 expected): %r" % (ln, len(line), line))
        xyz = []
        for c, name in enumerate("xyz"):
            f = line[10 * c: 10 * c + 10]
            if not _F10_4.match(f):
                raise ColumnError("atom line %d: %s field %r is not F10.4" % (ln, name, f))
            xyz.append(f.strip())
        if line[30] != " ":
            raise ColumnError("atom line %d: column 31 is %r, not blank" % (ln, line[30]))
        sym = line[31:34]
        if not _SYMBOL.match(sym):
            raise ColumnError("atom line %d: symbol field %r is not a left-justified symbol" % (ln, sym))
        _int_field(line[34:36], 2, "dd", ln)
        code = _int_field(line[36:39], 3, "ccc", ln)
        if not 0 <= code <= 7:
            raise ColumnError("atom line %d: charge code %d outside 0..7" % (ln, code))
        rest = line[39:]
        if len(rest) % 3:
            raise ColumnError("atom line %d: trailing fields are not multiples of 3 columns" % ln)
        for k in range(len(rest) // 3):
            _int_field(rest[3 * k: 3 * k + 3], 3, "field%d" % (k + 7), ln, blank_ok=True)
        coords.append(tuple(xyz))
        symbols.append(sym.strip())
        codes.append(code)
    bonds = []
    for b in range(nb):
        ln = 1 + na + b
        line = lines[ln]
        if len(line) < 9 or len(line) > 21 or len(line) % 3:
            raise ColumnError("bond line %d has %d columns: %r" % (ln, len(line), line))
        f = [_int_field(line[3 * k: 3 * k + 3], 3, "bondfield%d" % k, ln, blank_ok=(k > 2))
             for k in range(len(line) // 3)]
        if not (1 <= f[0] <= na and 1 <= f[1] <= na):
            raise ColumnError("bond line %d: atom numbers %d, %d outside 1..%d" % (ln, f[0], f[1], na))
        if not 1 <= f[2] <= 8:
            raise ColumnError("bond line %d: bond type %d outside 1..8" % (ln, f[2]))
        bonds.append((f[0], f[1], f[2]))
    chg = {}
    end_seen = False
    for ln in range(1 + na + nb, len(lines)):
        line = lines[ln]
        if end_seen:
            raise ColumnError("line %d after 'M  END': %r" % (ln, line))
        if line == "M  END":
            end_seen = True
            continue
        if line.startswith("M  CHG"):
            n = _int_field(line[6:9], 3, "nn8", ln)
            if not 1 <= n <= 8:
                raise ColumnError("charge line %d: %d entries (1..8 allowed)" % (ln, n))
            if len(line) != 9 + 8 * n:
                raise ColumnError("charge line %d: %d columns for %d entries (expected %d): %r"
                                  % (ln, len(line), n, 9 + 8 * n, line))
            for k in range(n):
                e = line[9 + 8 * k: 17 + 8 * k]
                if e[0] != " " or e[4] != " ":
                    raise ColumnError("charge line %d: entry %r is not ' aaa vvv'" % (ln, e))
                atom = _int_field(e[1:4], 3, "aaa", ln)
                val = _int_field(e[5:8], 3, "vvv", ln)
                if not 1 <= atom <= na:
                    raise ColumnError("charge line %d: atom number %d outside 1..%d" % (ln, atom, na))
                if atom in chg:
                    raise ColumnError("charge line %d: atom %d charged twice" % (ln, atom))
                chg[atom] = val
            continue
        raise ColumnError("unexpected property line %d: %r" % (ln, line))
    if not end_seen:
        raise ColumnError("'M  END' missing")
    if chg:
        charges = [chg.get(a + 1, 0) for a in range(na)]
    else:
        charges = [ATOM_BLOCK_CHARGE[c] for c in codes]
    return {"version": "V2000", "n_atoms": na, "n_bonds": nb, "coord_text": coords, "symbols": symbols,
            "atom_block_codes": codes, "charges": charges, "bonds": bonds, "has_chg_lines": bool(chg)}


def _v30_tokens(body):
    """Split a V3000 line body into tokens; double quotes group, '""' is a literal quote."""
    out, i, n = [], 0, len(body)
    while i < n:
        if body[i] == " ":
            i += 1
            continue
        if body[i] == '"':
            j, buf = i + 1, []
            while True:
                if j >= n:
                    raise ColumnError("unterminated quote in %r" % body)
                if body[j] == '"':
                    if j + 1 < n and body[j + 1] == '"':
                        buf.append('"')
                        j += 2
                        continue
                    break
                buf.append(body[j])
                j += 1
            out.append("".join(buf))
            i = j + 1
        else:
            j = i
            while j < n and body[j] != " ":
                j += 1
            out.append(body[i:j])
            i = j
    return out


def parse_v3000(lines):
    if not lines:
        raise ColumnError("empty connection table")
    counts = lines[0]
    if len(counts) != 39 or counts[33:39] != " V3000":
        raise ColumnError("V3000 needs a 39-column counts line ending in ' V3000': %r" % counts)
    for k in range(11):
        _int_field(counts[3 * k: 3 * k + 3], 3, "counts%d" % k, 0, blank_ok=True)
    if lines[-1] != "M  END":
        raise ColumnError("last line is %r, not 'M  END'" % lines[-1])
    body = []
    pending = None
    for ln, line in enumerate(lines[1:-1], 1):
        if len(line) > MAX_LINE:
            raise ColumnError("line %d longer than %d characters" % (ln, MAX_LINE))
        if not line.startswith("M  V30 "):
            raise ColumnError("line %d does not start with 'M  V30 ': %r" % (ln, line))
        text = line[7:]
        if pending is not None:
            text = pending + text
            pending = None
        if text.endswith("-"):
            pending = text[:-1]
            continue
        body.append(text)
    if pending is not None:
        raise ColumnError("dangling continuation line")
    pos = 0

    def expect(tokens):
        nonlocal pos
        if pos >= len(body) or body[pos].split() != tokens:
            raise ColumnError("expected %r at V30 line %d, got %r"
                              % (" ".join(tokens), pos, body[pos] if pos < len(body) else None))
        pos += 1

    expect(["BEGIN", "CTAB"])
    ct = body[pos].split() if pos < len(body) else []
    if len(ct) < 3 or ct[0] != "COUNTS":
        raise ColumnError("COUNTS line missing: %r" % ct)
    try:
        na, nb = int(ct[1]), int(ct[2])
        [int(t) for t in ct[3:6]]
    except ValueError:
        raise ColumnError("COUNTS line not numeric: %r" % ct)
    pos += 1
    expect(["BEGIN", "ATOM"])
    index_map, coords, symbols, charges = {}, [], [], []
    for a in range(na):
        if pos >= len(body):
            raise ColumnError("atom block ends early")
        tok = _v30_tokens(body[pos])
        pos += 1
        if len(tok) < 6:
            raise ColumnError("atom line %r has fewer than 6 fields" % tok)
        if not tok[0].isdigit() or int(tok[0]) < 1 or int(tok[0]) in index_map:
            raise ColumnError("bad or repeated atom index %r" % tok[0])
        index_map[int(tok[0])] = a
        for t in tok[2:5]:
            if not _V30_FLOAT.match(t):
                raise ColumnError("coordinate %r is not a plain decimal" % t)
        if not tok[5].isdigit():
            raise ColumnError("aamap %r is not an integer" % tok[5])
        c = 0
        for p in tok[6:]:
            if "=" not in p:
                raise ColumnError("property %r is not KEY=value" % p)
            k, v = p.split("=", 1)
            if k == "CHG":
                if not re.match(r"^-?\d+$", v):
                    raise ColumnError("CHG value %r" % v)
                c = int(v)
        symbols.append(tok[1])
        coords.append(tuple(tok[2:5]))
        charges.append(c)
    expect(["END", "ATOM"])
    bonds = []
    if nb > 0 or (pos < len(body) and body[pos].split() == ["BEGIN", "BOND"]):
        expect(["BEGIN", "BOND"])
        seen = set()
        for b in range(nb):
            if pos >= len(body):
                raise ColumnError("bond block ends early")
            tok = body[pos].split()
            pos += 1
            if len(tok) < 4 or not all(t.isdigit() for t in tok[:4]):
                raise ColumnError("bond line %r" % tok)
            if int(tok[0]) in seen or int(tok[0]) < 1:
                raise ColumnError("bad or repeated bond index %r" % tok[0])
            seen.add(int(tok[0]))
            if int(tok[2]) not in index_map or int(tok[3]) not in index_map:
                raise ColumnError("bond %r refers to an unknown atom index" % tok)
            if not 1 <= int(tok[1]) <= 10:
                raise ColumnError("bond type %r outside 1..10" % tok[1])
            bonds.append((index_map[int(tok[2])] + 1, index_map[int(tok[3])] + 1, int(tok[1])))
        expect(["END", "BOND"])
    expect(["END", "CTAB"])
    if pos != len(body):
        raise ColumnError("unexpected V30 line %r" % body[pos])
    return {"version": "V3000", "n_atoms": na, "n_bonds": nb, "coord_text": coords, "symbols": symbols,
            "atom_block_codes": None, "charges": charges, "bonds": bonds, "has_chg_lines": False}


def parse_ctab(lines):
    if lines and len(lines[0]) >= 39 and lines[0][33:39] == " V3000":
        return parse_v3000(lines)
    return parse_v2000(lines)
