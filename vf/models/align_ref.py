"""Independent reference for pairwise alignment (used by C08, C09, C11).

Nothing in here imports biotite.  All arithmetic is done with Python ints
(unreachable = float("-inf")), so there is no overflow.

Scoring model (the one documented by ``align_optimal`` / ``align.score``)
------------------------------------------------------------------------
* A column pairing ``seq1[i]`` with ``seq2[j]`` scores ``matrix[code1[i], code2[j]]``.
* Linear penalty ``g`` (an ``int``): every gap column scores ``g``.
* Affine penalty ``(open, ext)`` (a ``tuple``): per sequence, the first column of
  a run of gaps scores ``open``, every further column of the run ``ext``.  A gap
  in one sequence may not directly abut a gap in the other (``allow_abut=False``,
  the default for a tuple penalty); for a linear penalty abutting gaps are
  ordinary alignments (``allow_abut=True``).
* ``global``: all gaps are penalised.  ``semiglobal`` (``terminal_penalty=False``):
  gap columns before *all* sequences have started and after *any* sequence has
  ended are free (the definition of ``find_terminal_gaps``).  In grid terms:
  moves along row 0 / column 0 and along the last row / last column are free.
* ``local``: maximum over all alignments of a substring of seq1 with a substring
  of seq2 (all gaps penalised) and the empty alignment (score 0).

Public API
----------
``penalties(gap_penalty)``                      -> (open, ext, is_affine)
``pair_scores(code1, code2, matrix)``           -> S[i][j] positional score table (Python ints)
``trace_rows(trace)``                           -> list of tuples of ints
``check_trace(trace, lengths, end_to_end=False, contiguous=True)`` -> None | str (reason)
``has_abutting_gaps(trace)``                    -> bool (pairwise)
``paired_positions(trace)``                     -> [(i, j)] of columns without gap (pairwise)
``rescore(trace, codes, matrix, gap_penalty, terminal_penalty=True)`` -> int
``complete_semiglobal(trace, n, m)``            -> list of end-to-end traces
``optimum(S, n, m, gap_penalty, mode, allow_abut=None, require_pair=False)`` -> int | None
``extension_optimum(S, n, m, gap_penalty, gapped=True, allow_abut=None)`` -> int
``seeded_optimum(code1, code2, matrix, gap_penalty, seed, direction, gapped=True)`` -> int
``enumerate_alignments(n, m)``                  -> iterator over all end-to-end traces
``brute_optimum(...)``, ``brute_extension_optimum(...)`` -> exhaustive counterparts
``selftest(max_len=4)``                         -> audit of DP and re-scorer by brute force
"""

NEG = float("-inf")


# ---------------------------------------------------------------- basics
def penalties(gap_penalty):
    """(open, ext, is_affine) from an int or a 2-tuple."""
    if isinstance(gap_penalty, (tuple, list)):
        return int(gap_penalty[0]), int(gap_penalty[1]), True
    return int(gap_penalty), int(gap_penalty), False


def pair_scores(code1, code2, matrix):
    """Positional score table S[i][j] = matrix[code1[i], code2[j]] as Python ints."""
    import numpy as np
    c1 = np.asarray(code1).astype(np.int64)
    c2 = np.asarray(code2).astype(np.int64)
    mat = np.asarray(matrix)
    if len(c1) == 0:
        return []
    if len(c2) == 0:
        return [[] for _ in range(len(c1))]
    return mat[np.ix_(c1, c2)].astype(np.int64).tolist()


def trace_rows(trace):
    return [tuple(int(x) for x in row) for row in trace]


def _finite(x):
    return None if x == NEG else x


# ---------------------------------------------------------------- validity
def check_trace(trace, lengths, end_to_end=False, contiguous=True):
    """Validity of an alignment trace for sequences of the given lengths.

    Valid means: 2-D (columns x sequences); every entry is -1 or an index inside
    its sequence; per sequence the non-gap indices increase strictly (by exactly
    one if `contiguous`); no column consists of gaps only; if `end_to_end` every
    sequence is covered from its first to its last symbol.  Returns None if
    valid, else a short reason."""
    rows = trace_rows(trace)
    k = len(lengths)
    last = [None] * k
    first = [None] * k
    for c, row in enumerate(rows):
        if len(row) != k:
            return "column %d has %d entries for %d sequences" % (c, len(row), k)
        if all(v == -1 for v in row):
            return "column %d consists of gaps only" % c
        for s, v in enumerate(row):
            if v == -1:
                continue
            if v < 0 or v >= lengths[s]:
                return "column %d: index %d outside sequence %d of length %d" % (c, v, s, lengths[s])
            if last[s] is not None:
                if v <= last[s]:
                    return "column %d: sequence %d index %d after %d (not increasing)" % (c, s, v, last[s])
                if contiguous and v != last[s] + 1:
                    return "column %d: sequence %d skips from %d to %d" % (c, s, last[s], v)
            else:
                first[s] = v
            last[s] = v
    if end_to_end:
        for s in range(k):
            if lengths[s] == 0:
                continue
            if first[s] != 0 or last[s] != lengths[s] - 1:
                return "sequence %d covered from %r to %r, not end-to-end (length %d)" % (s, first[s], last[s], lengths[s])
    return None


def has_abutting_gaps(trace):
    """True if a column with a gap in one sequence directly follows a column with
    a gap in the other (pairwise traces)."""
    prev = 0
    for i, j in trace_rows(trace):
        kind = 1 if i == -1 else (2 if j == -1 else 0)
        if kind and prev and kind != prev:
            return True
        prev = kind
    return False


def paired_positions(trace):
    return [(i, j) for i, j in trace_rows(trace) if i != -1 and j != -1]


# ---------------------------------------------------------------- re-scoring
def rescore(trace, codes, matrix, gap_penalty, terminal_penalty=True):
    """Score of a trace under the documented model (sum of pairs for more than
    two sequences).  `codes`: one integer code sequence per trace column;
    `matrix`: 2-D integer table indexed [code_a][code_b] (numpy array or nested
    lists)."""
    rows = trace_rows(trace)
    k = len(codes)
    go, ge, _ = penalties(gap_penalty)
    total = 0
    for row in rows:
        for a in range(k):
            if row[a] == -1:
                continue
            for b in range(a + 1, k):
                if row[b] == -1:
                    continue
                total += int(matrix[int(codes[a][row[a]])][int(codes[b][row[b]])])
    ncol = len(rows)
    if terminal_penalty:
        start, stop = 0, ncol
    else:
        firsts, lasts = [], []
        for s in range(k):
            pos = [c for c, row in enumerate(rows) if row[s] != -1]
            if not pos:
                # a sequence without any symbol: every gap is terminal
                return total
            firsts.append(pos[0])
            lasts.append(pos[-1])
        start, stop = max(firsts), min(lasts) + 1
    for s in range(k):
        in_gap = False
        for c in range(start, stop):
            if rows[c][s] == -1:
                total += ge if in_gap else go
                in_gap = True
            else:
                in_gap = False
    return total


def complete_semiglobal(trace, n, m):
    """All ways to complete a partial pairwise trace to an end-to-end alignment by
    adding the unaligned sequence ends as gap columns (both orders where both
    sequences have an unaligned end on the same side)."""
    rows = trace_rows(trace)
    i_idx = [i for i, _ in rows if i != -1]
    j_idx = [j for _, j in rows if j != -1]

    def ends(idx, length):
        # -> list of (number of symbols placed before, first index placed after)
        if idx:
            return [(idx[0], idx[-1] + 1)]
        return [(k, k) for k in range(length + 1)]

    out = []
    for a0, a1 in ends(i_idx, n):
        for b0, b1 in ends(j_idx, m):
            pre1 = [(i, -1) for i in range(a0)]
            pre2 = [(-1, j) for j in range(b0)]
            suf1 = [(i, -1) for i in range(a1, n)]
            suf2 = [(-1, j) for j in range(b1, m)]
            pres = [pre1 + pre2] if not (pre1 and pre2) else [pre1 + pre2, pre2 + pre1]
            sufs = [suf1 + suf2] if not (suf1 and suf2) else [suf1 + suf2, suf2 + suf1]
            for p in pres:
                for s in sufs:
                    out.append(p + rows + s)
    return out


# ---------------------------------------------------------------- the DP
def optimum(S, n, m, gap_penalty, mode, allow_abut=None, require_pair=False):
    """Maximum score over all alignments of the given mode ("global",
    "semiglobal", "local").  With `require_pair` the maximum is restricted to
    alignments with at least one column pairing two symbols (None if there is
    none)."""
    go, ge, affine = penalties(gap_penalty)
    abut = (not affine) if allow_abut is None else bool(allow_abut)
    if mode == "local":
        return _local(S, n, m, go, ge, abut, require_pair)
    if mode not in ("global", "semiglobal"):
        raise ValueError(mode)
    semi = mode == "semiglobal"
    W = m + 1
    M = [[NEG] * W for _ in range(n + 1)]
    X0 = [[NEG] * W for _ in range(n + 1)]   # last column: gap in seq1, no pair so far
    X1 = [[NEG] * W for _ in range(n + 1)]   # ... at least one pair so far
    Y0 = [[NEG] * W for _ in range(n + 1)]   # last column: gap in seq2
    Y1 = [[NEG] * W for _ in range(n + 1)]
    for i in range(n + 1):
        for j in range(W):
            if i == 0 and j == 0:
                continue
            if i > 0 and j > 0:
                p = max(M[i-1][j-1], X0[i-1][j-1], X1[i-1][j-1], Y0[i-1][j-1], Y1[i-1][j-1])
                if i == 1 and j == 1:
                    p = max(p, 0)
                M[i][j] = p + S[i-1][j-1]
            if j > 0:
                free = semi and (i == 0 or i == n)
                co, ce = (0, 0) if free else (go, ge)
                b = 0 if (i == 0 and j == 1) else NEG
                x0 = max(b + co, X0[i][j-1] + ce)
                x1 = max(M[i][j-1] + co, X1[i][j-1] + ce)
                if abut:
                    x0 = max(x0, Y0[i][j-1] + co)
                    x1 = max(x1, Y1[i][j-1] + co)
                X0[i][j], X1[i][j] = x0, x1
            if i > 0:
                free = semi and (j == 0 or j == m)
                co, ce = (0, 0) if free else (go, ge)
                b = 0 if (j == 0 and i == 1) else NEG
                y0 = max(b + co, Y0[i-1][j] + ce)
                y1 = max(M[i-1][j] + co, Y1[i-1][j] + ce)
                if abut:
                    y0 = max(y0, X0[i-1][j] + co)
                    y1 = max(y1, X1[i-1][j] + co)
                Y0[i][j], Y1[i][j] = y0, y1
    if n == 0 and m == 0:
        return None if require_pair else 0
    with_pair = max(M[n][m], X1[n][m], Y1[n][m])
    if require_pair:
        return _finite(with_pair)
    return _finite(max(with_pair, X0[n][m], Y0[n][m]))


def _local(S, n, m, go, ge, abut, require_pair):
    # An optimal local alignment never starts or ends with a gap column
    # (penalties <= 0), so it is enough to consider alignments that start with a pair.
    W = m + 1
    M = [[NEG] * W for _ in range(n + 1)]
    X = [[NEG] * W for _ in range(n + 1)]
    Y = [[NEG] * W for _ in range(n + 1)]
    best = NEG
    for i in range(1, n + 1):
        for j in range(1, W):
            M[i][j] = max(0, M[i-1][j-1], X[i-1][j-1], Y[i-1][j-1]) + S[i-1][j-1]
            x = max(M[i][j-1] + go, X[i][j-1] + ge)
            y = max(M[i-1][j] + go, Y[i-1][j] + ge)
            if abut:
                x = max(x, Y[i][j-1] + go)
                y = max(y, X[i-1][j] + go)
            X[i][j], Y[i][j] = x, y
            best = max(best, M[i][j], x, y)
    if require_pair:
        return _finite(best)
    return max(0, best) if best != NEG else 0


def extension_optimum(S, n, m, gap_penalty, gapped=True, allow_abut=None):
    """Best score of an alignment of a prefix of seq1 with a prefix of seq2 that
    directly follows an aligned pair (the seed): all gaps penalised, may be empty
    (score 0), may end anywhere."""
    if not gapped:
        best = run = 0
        for k in range(min(n, m)):
            run += S[k][k]
            best = max(best, run)
        return best
    go, ge, affine = penalties(gap_penalty)
    abut = (not affine) if allow_abut is None else bool(allow_abut)
    W = m + 1
    M = [[NEG] * W for _ in range(n + 1)]
    X = [[NEG] * W for _ in range(n + 1)]
    Y = [[NEG] * W for _ in range(n + 1)]
    M[0][0] = 0
    best = 0
    for i in range(n + 1):
        for j in range(W):
            if i == 0 and j == 0:
                continue
            if i > 0 and j > 0:
                M[i][j] = max(M[i-1][j-1], X[i-1][j-1], Y[i-1][j-1]) + S[i-1][j-1]
            if j > 0:
                x = max(M[i][j-1] + go, X[i][j-1] + ge)
                if abut:
                    x = max(x, Y[i][j-1] + go)
                X[i][j] = x
            if i > 0:
                y = max(M[i-1][j] + go, Y[i-1][j] + ge)
                if abut:
                    y = max(y, X[i-1][j] + go)
                Y[i][j] = y
            best = max(best, M[i][j], X[i][j], Y[i][j])
    return best


def seeded_optimum(code1, code2, matrix, gap_penalty, seed, direction, gapped=True):
    """Maximum score over local alignments that contain the column (seed) and
    extend only in the requested direction ("both", "upstream", "downstream")."""
    s1, s2 = int(seed[0]), int(seed[1])
    c1 = [int(x) for x in code1]
    c2 = [int(x) for x in code2]
    total = int(matrix[c1[s1]][c2[s2]])
    if direction in ("both", "downstream"):
        d1, d2 = c1[s1+1:], c2[s2+1:]
        total += extension_optimum(pair_scores(d1, d2, matrix), len(d1), len(d2), gap_penalty, gapped)
    if direction in ("both", "upstream"):
        u1, u2 = c1[:s1][::-1], c2[:s2][::-1]
        total += extension_optimum(pair_scores(u1, u2, matrix), len(u1), len(u2), gap_penalty, gapped)
    return total


# ---------------------------------------------------------------- brute force
def enumerate_alignments(n, m, i0=0, j0=0):
    """All end-to-end alignments of seq1[i0:i0+n] with seq2[j0:j0+m] as lists of
    (i, j) columns with -1 for a gap."""
    def rec(i, j):
        if i == n and j == m:
            yield []
            return
        if i < n and j < m:
            for rest in rec(i + 1, j + 1):
                yield [(i0 + i, j0 + j)] + rest
        if i < n:
            for rest in rec(i + 1, j):
                yield [(i0 + i, -1)] + rest
        if j < m:
            for rest in rec(i, j + 1):
                yield [(-1, j0 + j)] + rest
    return rec(0, 0)


def brute_optimum(code1, code2, matrix, gap_penalty, mode, allow_abut=None, require_pair=False):
    """Exhaustive counterpart of `optimum` (tiny inputs only)."""
    n, m = len(code1), len(code2)
    _, _, affine = penalties(gap_penalty)
    abut = (not affine) if allow_abut is None else bool(allow_abut)
    codes = [list(code1), list(code2)]
    best = NEG

    def consider(tr, terminal):
        nonlocal best
        if not abut and has_abutting_gaps(tr):
            return
        if require_pair and not paired_positions(tr):
            return
        best = max(best, rescore(tr, codes, matrix, gap_penalty, terminal))

    if mode == "global":
        for tr in enumerate_alignments(n, m):
            consider(tr, True)
    elif mode == "semiglobal":
        for tr in enumerate_alignments(n, m):
            consider(tr, False)
    elif mode == "local":
        if not require_pair:
            best = 0
        for a in range(n + 1):
            for b in range(a, n + 1):
                for c in range(m + 1):
                    for d in range(c, m + 1):
                        if a == b and c == d:
                            continue
                        for tr in enumerate_alignments(b - a, d - c, a, c):
                            consider(tr, True)
    else:
        raise ValueError(mode)
    return _finite(best)


def brute_extension_optimum(code1, code2, matrix, gap_penalty, gapped=True, allow_abut=None):
    n, m = len(code1), len(code2)
    _, _, affine = penalties(gap_penalty)
    abut = (not affine) if allow_abut is None else bool(allow_abut)
    codes = [list(code1), list(code2)]
    best = 0
    for a in range(n + 1):
        for b in range(m + 1):
            for tr in enumerate_alignments(a, b):
                if not gapped and any(i == -1 or j == -1 for i, j in tr):
                    continue
                if not abut and has_abutting_gaps(tr):
                    continue
                best = max(best, rescore(tr, codes, matrix, gap_penalty, True))
    return best


# ---------------------------------------------------------------- audit
def selftest(max_len=4, rounds=40, seed=12345):
    """Audit: literal expectations for the re-scorer and the validity checker,
    then DP == exhaustive enumeration for all three modes, linear and affine,
    with and without the pair requirement, on random tiny inputs (lengths 0..max_len)."""
    import numpy as np
    # --- the number of alignments is the Delannoy number
    assert sum(1 for _ in enumerate_alignments(2, 2)) == 13
    assert sum(1 for _ in enumerate_alignments(3, 3)) == 63
    assert sum(1 for _ in enumerate_alignments(0, 3)) == 1
    # --- re-scorer on literals:  matrix = +5 match / -3 mismatch
    mat = [[5 if a == b else -3 for b in range(3)] for a in range(3)]
    c = [[0, 1, 2, 2], [0, 2, 2]]
    tr = [(0, 0), (1, -1), (2, 1), (3, 2)]                  # ABCC / A-CC
    assert rescore(tr, c, mat, -7) == 5 - 7 + 5 + 5
    assert rescore(tr, c, mat, (-7, -1)) == 5 - 7 + 5 + 5
    tr = [(0, -1), (1, -1), (2, 0), (3, 1), (-1, 2)]         # ABCC- / --ACC
    assert rescore(tr, c, mat, (-7, -1)) == (-7 - 1) + (-3) + 5 + (-7)
    assert rescore(tr, c, mat, (-7, -1), terminal_penalty=False) == 2
    assert rescore(tr, c, mat, -2, terminal_penalty=False) == 2
    tr = [(-1, 0), (0, -1), (1, 1), (2, 2), (3, -1)]         # -ABCC / A-CC-  (abutting, leading gap is terminal)
    assert rescore(tr, c, mat, -2, terminal_penalty=False) == -2 - 3 + 5
    assert rescore(tr, c, mat, (-4, -1)) == -4 - 4 - 3 + 5 - 4
    assert has_abutting_gaps(tr) and not has_abutting_gaps([(0, 0), (1, -1), (2, 1), (-1, 2)])
    assert rescore([], c, mat, -2) == 0 and rescore([], c, mat, -2, terminal_penalty=False) == 0
    assert rescore([(-1, 0), (-1, 1)], [[], [0, 1]], mat, -5, terminal_penalty=False) == 0
    assert rescore([(-1, 0), (-1, 1)], [[], [0, 1]], mat, (-5, -1)) == -6
    # three sequences, sum of pairs
    assert rescore([(0, 0, 0), (1, -1, 1)], [[0, 1], [0], [0, 1]], mat, -2) == 15 + 5 - 2
    # --- validity checker
    assert check_trace([(0, 0), (1, -1), (2, 1)], [3, 2], end_to_end=True) is None
    assert check_trace([], [0, 0], end_to_end=True) is None
    assert check_trace([], [2, 0], end_to_end=True) is not None
    assert check_trace([(0, 0), (-1, -1)], [3, 2]) is not None
    assert check_trace([(1, 0), (0, 1)], [3, 2]) is not None
    assert check_trace([(0, 0), (0, 1)], [3, 2]) is not None
    assert check_trace([(0, 0), (2, 1)], [3, 2]) is not None
    assert check_trace([(0, 0), (2, 1)], [3, 2], contiguous=False) is None
    assert check_trace([(0, 0), (1, 2)], [3, 2]) is not None
    assert check_trace([(1, 0), (2, 1)], [3, 2]) is None
    assert check_trace([(1, 0), (2, 1)], [3, 2], end_to_end=True) is not None
    assert check_trace([(0, 0, 1)], [3, 2]) is not None
    # --- completion
    comp = complete_semiglobal([(1, 0), (2, 1)], 4, 3)
    assert comp == [[(0, -1), (1, 0), (2, 1), (3, -1), (-1, 2)], [(0, -1), (1, 0), (2, 1), (-1, 2), (3, -1)]]
    assert [(0, -1), (-1, 0)] in complete_semiglobal([], 1, 1) and [(-1, 0), (0, -1)] in complete_semiglobal([], 1, 1)
    for t in complete_semiglobal([(0, -1)], 2, 2):
        assert check_trace(t, [2, 2], end_to_end=True) is None
    # --- DP against exhaustive enumeration
    rng = np.random.default_rng(seed)
    pens = [0, -1, -3, -12, (0, 0), (-5, -1), (-1, -5), (-4, -4), (0, -2), (-3, 0)]
    checked = 0
    for r in range(rounds):
        n = int(rng.integers(0, max_len + 1))
        m = int(rng.integers(0, max_len + 1))
        if r < 4:
            n, m = [(0, 0), (0, 3), (3, 0), (max_len, max_len)][r]
        a1 = int(rng.integers(1, 4))
        a2 = int(rng.integers(1, 4))
        kind = r % 4
        if kind == 0:
            matx = rng.integers(-20, 21, size=(a1, a2))
        elif kind == 1:
            matx = rng.integers(-20, 0, size=(a1, a2))
        elif kind == 2:
            matx = rng.integers(-1, 2, size=(a1, a2))
        else:
            matx = rng.integers(0, 6, size=(a1, a2))
        matl = matx.tolist()
        c1 = [int(x) for x in rng.integers(0, a1, size=n)]
        c2 = [int(x) for x in rng.integers(0, a2, size=m)]
        S = pair_scores(c1, c2, matx)
        gp = pens[int(rng.integers(len(pens)))]
        for mode in ("global", "semiglobal", "local"):
            for abut in (None, True, False):
                for rp in (False, True):
                    got = optimum(S, n, m, gp, mode, abut, rp)
                    exp = brute_optimum(c1, c2, matl, gp, mode, abut, rp)
                    assert got == exp, ("optimum", mode, abut, rp, c1, c2, matl, gp, got, exp)
                    checked += 1
        if n <= 3 and m <= 3:
            for gapped in (True, False):
                for abut in (None, True, False):
                    got = extension_optimum(S, n, m, gp, gapped, abut)
                    exp = brute_extension_optimum(c1, c2, matl, gp, gapped, abut)
                    assert got == exp, ("extension", gapped, abut, c1, c2, matl, gp, got, exp)
                    checked += 1
    return checked
