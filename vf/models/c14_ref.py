"""Reference model for C14 (cell-list neighbour search): brute force in float64.

Nothing here imports biotite.  All functions take / return plain numpy arrays.

Conventions
-----------
P : (n,3) float64  atom coordinates exactly as handed to CellList (float32 input is
                   upcast, so the values are the values biotite received)
Q : (m,3) float64  query coordinates exactly as handed to the query method
R : (m,)  float64  radius per query
sel : (n,) bool    atoms stored in the cell list

A membership (query i, atom j) is classified
    IN         distance clearly <= radius  (d <= r - band, or d == 0 non-periodic)
    OUT        distance clearly >  radius  (d >  r + band)
    undecided  otherwise (accepted either way, counted)
with band = 4*eps32*(|p|+|q|+r) (DESIGN.md section 5) + 2*sqrt(tiny32) in the non-periodic case.
"""

import itertools

import numpy as np

EPS32 = float(np.finfo(np.float32).eps)          # 2**-23
F32MAX = float(np.finfo(np.float32).max)
# The implementation compares *squared* float32 distances: below the smallest normal
# float32 (1.18e-38) a square loses its relative precision / flushes to zero, so
# distances and radii below sqrt(tiny32) = 1.08e-19 cannot be resolved by the format.
ABS32 = 2.0 * float(np.sqrt(np.finfo(np.float32).tiny))

SHIFTS2 = np.array(list(itertools.product(range(-2, 3), repeat=3)), dtype=np.float64)   # 125 images
IN27 = (np.abs(SHIFTS2).max(axis=1) <= 1)                                                # the 27 nearest


def norms(X):
    X = np.asarray(X, dtype=np.float64)
    with np.errstate(all="ignore"):
        return np.sqrt((X * X).sum(axis=-1))


def ref_dist(P, Q):
    """(m,n) Euclidean distances in float64."""
    with np.errstate(all="ignore"):
        d = Q[:, None, :] - P[None, :, :]
        return np.sqrt((d * d).sum(axis=-1))


# ------------------------------------------------------------------ periodic
def wrap(X, box, inv=None):
    """Positions moved into the box spanned by the rows of `box` (origin 0):
    fractional coordinates reduced to [0,1)."""
    if inv is None:
        inv = np.linalg.inv(box)
    with np.errstate(all="ignore"):
        frac = X @ inv
        frac = frac - np.floor(frac)
        return frac @ box


def min_image(Pw, Qw, box, chunk_elems=150000):
    """Minimum distance between each query and all images a*i+b*j+c*k of each atom.
    Returns (d27, d125): minimum over i,j,k in -1..1 and in -2..2, both (m,n)."""
    m, n = Qw.shape[0], Pw.shape[0]
    T = SHIFTS2 @ box                                  # (125,3)
    d27 = np.empty((m, n))
    d125 = np.empty((m, n))
    step = max(1, chunk_elems // max(1, n * 125))
    with np.errstate(all="ignore"):
        for s in range(0, m, step):
            diff = Pw[None, :, :] - Qw[s:s + step, None, :]              # (c,n,3)
            v = diff[:, :, None, :] + T[None, None, :, :]                # (c,n,125,3)
            d = np.sqrt((v * v).sum(axis=-1))                            # (c,n,125)
            d125[s:s + step] = d.min(axis=-1)
            d27[s:s + step] = d[:, :, IN27].min(axis=-1)
    return d27, d125


def box_heights(box):
    """Perpendicular heights of the parallelepiped (distance between opposite faces)."""
    a, b, c = box
    vol = abs(np.dot(a, np.cross(b, c)))
    return np.array([vol / np.linalg.norm(np.cross(b, c)),
                     vol / np.linalg.norm(np.cross(c, a)),
                     vol / np.linalg.norm(np.cross(a, b))])


def unitcell_box(la, lb, lc, alpha, beta, gamma):
    """Own lower-triangular box from lengths and angles (radians); None if impossible."""
    ca, cb, cg, sg = np.cos(alpha), np.cos(beta), np.cos(gamma), np.sin(gamma)
    v2 = 1 - ca * ca - cb * cb - cg * cg + 2 * ca * cb * cg
    if v2 <= 0 or sg <= 0:
        return None
    cx = lc * cb
    cy = lc * (ca - cb * cg) / sg
    cz2 = lc * lc - cx * cx - cy * cy
    if cz2 <= 0:
        return None
    return np.array([[la, 0, 0], [lb * cg, lb * sg, 0], [cx, cy, np.sqrt(cz2)]], dtype=np.float64)


# ------------------------------------------------------------------ expectation
class World:
    """Everything the oracle needs to know about one CellList."""

    def __init__(self, P, cell_size, sel=None, box=None, box_is_f32=False):
        self.P = np.asarray(P, dtype=np.float64)
        self.n = self.P.shape[0]
        self.cs = float(cell_size)
        self.sel = np.ones(self.n, dtype=bool) if sel is None else np.asarray(sel, dtype=bool).copy()
        self.Pn = norms(self.P)
        with np.errstate(all="ignore"):
            fin = np.isfinite(self.Pn)
            self.Pmax = float(self.Pn[fin].max()) if fin.any() else 0.0
        self.periodic = box is not None
        if self.periodic:
            self.box = np.asarray(box, dtype=np.float64)
            self.inv = np.linalg.inv(self.box)
            self.Pw = wrap(np.where(np.isfinite(self.P), self.P, 0.0), self.box, self.inv)
            self.boxsum = float(norms(self.box).sum())
            # a float32 box is inverted in float32 by biotite: the error of
            # coord @ inv @ box is amplified by the condition number
            self.kappa = float(np.linalg.cond(self.box)) if box_is_f32 else 1.0

    # distances -----------------------------------------------------------
    def distances(self, Q):
        """-> (D, D27): D is the deciding distance (125-image minimum when periodic),
        D27 the 27-image minimum (None when not periodic)."""
        Qf = np.where(np.isfinite(Q), Q, 0.0)
        Pf = np.where(np.isfinite(self.P), self.P, np.nan)
        if not self.periodic:
            return ref_dist(Pf, Qf), None
        d27, d125 = min_image(self.Pw, wrap(Qf, self.box, self.inv), self.box)
        bad = ~np.isfinite(self.P).all(axis=1)
        if bad.any():
            d27[:, bad] = np.nan
            d125[:, bad] = np.nan
        return d125, d27

    def expect(self, Q, R, mode="ball", dist=None):
        """Classification of every (query, atom) membership.

        mode 'ball' : get_atoms / adjacency (exact set demanded)
        mode 'cells': get_atoms_in_cells with R = cell_radius*cell_size (superset demanded:
                      OUT is only 'not stored in the list' / non-finite query)
        -> dict(IN, OUT, skew, D, band, fin)
        """
        Q = np.asarray(Q, dtype=np.float64)
        R = np.asarray(R, dtype=np.float64)
        fin = np.isfinite(Q).all(axis=1)
        D, D27 = self.distances(Q) if dist is None else dist
        qn = norms(np.where(np.isfinite(Q), Q, 0.0))
        with np.errstate(all="ignore"):
            if not self.periodic:
                mag = qn[:, None] + self.Pn[None, :] + R[:, None]
                if mode == "cells":
                    mag = mag + self.Pmax            # the cell origin (min coordinate) enters the index arithmetic
                band = 4 * EPS32 * mag + ABS32
                IN = (D <= R[:, None] - band) | (D == 0)
                skew = np.zeros_like(IN)
            else:
                mag = self.kappa * (qn[:, None] + self.Pn[None, :]) + 2 * self.boxsum + R[:, None]
                if mode == "cells":
                    mag = mag + 2 * self.boxsum
                band = 8 * EPS32 * mag + ABS32
                in125 = D <= R[:, None] - band
                in27 = D27 <= R[:, None] - band
                IN = in125 & in27
                skew = in125 & ~in27
            OUT = D > R[:, None] + band
        if mode == "cells":
            OUT = np.zeros_like(OUT)
        IN = IN.copy()
        IN[~fin, :] = False
        OUT[~fin, :] = True
        skew[~fin, :] = False
        IN[:, ~self.sel] = False
        OUT[:, ~self.sel] = True
        skew[:, ~self.sel] = False
        return {"IN": IN, "OUT": OUT, "skew": skew, "D": D, "band": band, "fin": fin}


# ------------------------------------------------------------------ resource model
def wrap32(x):
    """Value of a C `int` after assigning the (64-bit) integer x to it."""
    x = int(x) & 0xFFFFFFFF
    return x - (1 << 32) if x >= (1 << 31) else x


def buffer_len(cell_radius, max_cell_length):
    """True size of the candidate buffer `(2r+1)^3 * max_cell_length` (python int)."""
    return (2 * int(cell_radius) + 1) ** 3 * int(max_cell_length)


def rcap(budget, mcl, m, hard=60):
    """Largest cell radius R <= hard with (2R+1)^3*mcl*m <= budget."""
    x = int((budget / float(max(1, mcl) * max(1, m))) ** (1.0 / 3.0) + 1e-9)
    return max(0, min(hard, (x - 1) // 2))


def est_max_cell_length(C, cs):
    """Occupancy of the fullest cell, with the float32 index arithmetic of the
    implementation (used ONLY to bound the memory a generated query may ask for)."""
    C32 = np.asarray(C, dtype=np.float32)
    if C32.shape[0] == 0:
        return 1
    mn = C32.min(axis=0)
    with np.errstate(all="ignore"):
        idx = ((C32 - mn) / np.float32(cs)).astype(np.int64)
    _, counts = np.unique(idx, axis=0, return_counts=True)
    return int(counts.max())


def cell_count(C, cs):
    C = np.asarray(C, dtype=np.float64)
    ext = C.max(axis=0) - C.min(axis=0)
    return float(np.prod(np.floor(ext / cs) + 1))
