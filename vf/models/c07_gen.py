"""Seeded generators of structure descriptions ("specs") for C07.  Pure
Python / numpy; no biotite.  A spec is a JSON-able dict:

  atoms     [[chain, res_id, ins, res_name, hetero, atom_name, element], ...]
  coord     models x atoms x 3 floats (exactly representable in float32; may be nan/inf)
  stack     bool (AtomArrayStack or AtomArray; an AtomArray has exactly one model)
  atom_id / b_factor / occupancy / charge   list or None (annotation absent)
  fdtype    'float32' | 'float64' for b_factor/occupancy
  box       3x3 floats (float32-exact) or None
  bonds     [[i, j, type], ...] or None
  hybrid36  bool
  via       'method' | 'convert'
"""

import math

import numpy as np

from vf.models import c07_pdbspec as S

ELEM1 = ["C", "N", "O", "H", "S", "P", "K", "U", "F", "I", "B", "V", "W", "Y", "D"]
ELEM2 = ["FE", "ZN", "CA", "CL", "MG", "NA", "SE", "BR", "HG", "MN", "CU", "Fe", "Zn", "Cl"]
SUFFIX = list("ABCDEGHZ0123456789'*\"")
ANYCH = list("ABCDEFGHIJKLMNOPQRSTUVWXYZ0123456789'*\"+-")
RESCH = list("ABCDEFGHIJKLMNOPQRSTUVWXYZ0123456789")
CHAINCH = list("ABCDEFGHIJKLMNOPQRSTUVWXYZabcdefghijklmnopqrstuvwxyz0123456789")
WATER = ("HOH", "SOL")

COORD_EDGE = [-999.9996, -999.9994, -999.999, -999.9995, -999.99951, -1000.0, -1000.4, 9999.9994, 9999.9996,
              9999.999, 9999.998, 9999.9985, 10000.0, 10000.5, 99999.0, -99999.0, 0.0, -0.0, -0.0004, 0.0004,
              0.0005, -0.0005, 0.0015, 1e-7, 999.9995, -99.9995, 1e10, -1e10, 3e38, 2.0 ** 31, 2.0 ** 63,
              float("nan"), float("inf"), float("-inf")]
REAL2_EDGE = [999.994, 999.996, 999.99, 999.995, 999.9949, 999.99501, 1000.0, 1000.4, -99.994, -99.996, -99.99,
              -99.995, -99.99501, -100.0, 0.0, -0.0, -0.004, 0.004, 0.005, 0.015, 0.025, 1.0, 9999.0, 1e10,
              -1e10, float("nan"), float("inf"), float("-inf")]
CHARGE_EDGE = [-11, -10, -9, -1, 0, 1, 9, 10, 11, 99]
RESID_EDGE = [-1001, -1000, -999, -998, -1, 0, 1, 9998, 9999, 10000, 10001, 19998, 19999, 99999, 100000]
RESID_EDGE_HY = [0, 9999, 10000, 10001, 1223055, 1223056, 2436110, 2436111, 2436112, 2436113, 2 ** 31 - 1,
                 2 ** 31, -1, -999, -1000]
ATOMID_EDGE = [-10001, -10000, -9999, -1, 0, 1, 99998, 99999, 100000, 100001, 199998]
ATOMID_EDGE_HY = [0, 99999, 100000, 100001, 43770015, 43770016, 87440030, 87440031, 87440032, 2 ** 31 - 1,
                  2 ** 31, -1, -9999, -10000]


_DESC = {}


def f32(x):
    return float(np.float32(x))


def pick(rng, seq):
    return seq[int(rng.integers(len(seq)))]


def rand_word(rng, chars, n):
    return "".join(pick(rng, chars) for _ in range(n))


def gen_name_elem(rng, used, name_len=None, elem_len=None):
    """An (atom_name, element) pair with a name not in `used`."""
    for _ in range(200):
        el = int(elem_len if elem_len is not None else (1 if rng.random() < 0.7 else 2))
        elem = pick(rng, ELEM1 if el == 1 else ELEM2)
        nl = int(name_len if name_len is not None else rng.choice([1, 2, 3, 4], p=[0.15, 0.3, 0.3, 0.25]))
        if rng.random() < 0.75 and nl >= len(elem):
            name = elem + rand_word(rng, SUFFIX, nl - len(elem))
        else:
            name = rand_word(rng, ANYCH, nl)
        if name not in used:
            return name, elem
    raise RuntimeError("name pool exhausted")


def gen_unknown_resname(rng, ccd_ids, n=None):
    for _ in range(200):
        k = int(n if n is not None else rng.choice([1, 2, 3], p=[0.1, 0.2, 0.7]))
        w = rand_word(rng, RESCH, k)
        if w not in ccd_ids and w not in WATER:
            return w
    raise RuntimeError


def gen_residues(rng, ccd, n_target, hybrid, allow_empty_chain=True):
    """List of residues {chain,res_id,ins,res_name,hetero,atoms:[(name,elem)]} with
    (chain,res_id,ins) unique and atom names unique inside a residue."""
    if "d" not in _DESC:
        _DESC["d"] = ccd.describe()
    desc = _DESC["d"]
    ids = desc["order"]
    pep = [c for c in ids if ccd.link_class(c) == "peptide"]
    nuc = [c for c in ids if ccd.link_class(c) == "nucleic"]
    lig = [c for c in ids if ccd.link_class(c) is None and len(c) <= 3]
    residues, total = [], 0
    chains = list(rng.permutation(CHAINCH))
    if allow_empty_chain and rng.random() < 0.12:
        chains.insert(int(rng.integers(0, 3)), "")
    chain = chains.pop(0)
    top = 2436111 if hybrid else 9999
    starts = [-999, -998, -5, -1, 0, 1, 1, 1, 7, 95, 998, 9990, 9996]
    if hybrid:
        starts = [0, 1, 1, 95, 9995, 9999, 10000, 99999, 1223050, 2436100]
    res_id = int(pick(rng, starts))
    ins_used = {}
    mode = pick(rng, ["protein", "nucleic", "ligands", "mixed", "mixed", "unknown"])
    while total < n_target:
        kind = {"protein": "pep", "nucleic": "nuc", "ligands": "lig", "unknown": "unk"}.get(mode) \
            or pick(rng, ["pep", "nuc", "lig", "unk", "unk"])
        if rng.random() < 0.15:
            kind = pick(rng, ["pep", "nuc", "lig", "unk"])
        if kind == "unk":
            res_name = "SOL" if rng.random() < 0.06 else gen_unknown_resname(rng, ids)
            used, atoms = set(), []
            for _ in range(int(rng.integers(1, 7))):
                nm, el = gen_name_elem(rng, used)
                used.add(nm)
                atoms.append((nm, el))
            hetero = bool(rng.random() < (0.9 if res_name == "SOL" else 0.5))
        else:
            res_name = pick(rng, {"pep": pep, "nuc": nuc, "lig": lig}[kind])
            tmpl = [(a["atom_id"], a["type_symbol"]) for a in desc["chem_comp_atom"][res_name]]
            r = rng.random()
            if r < 0.5:
                atoms = list(tmpl)
            else:
                k = int(rng.integers(1, len(tmpl) + 1))
                sel = sorted(rng.permutation(len(tmpl))[:k].tolist())
                atoms = [tmpl[i] for i in sel]
            if rng.random() < 0.15:
                atoms = [atoms[i] for i in rng.permutation(len(atoms))]
            hetero = bool(rng.random() < (0.9 if kind == "lig" else 0.08))
        atoms = atoms[: max(1, n_target - total)]
        ins = ins_used.get((chain, res_id))
        ins_code = "" if ins is None else "ABCDEFGHIJKLMNOPQRSTUVWXYZ"[ins]
        residues.append({"chain": chain, "res_id": res_id, "ins": ins_code, "res_name": res_name,
                         "hetero": hetero, "atoms": atoms})
        total += len(atoms)
        # next residue position
        r = rng.random()
        if r < 0.12 and (ins is None or ins < 24):
            ins_used[(chain, res_id)] = 0 if ins is None else ins + 1
        elif r < 0.22 and chains:
            chain = chains.pop(0)
            res_id = int(pick(rng, starts))
        else:
            step = 1 if rng.random() < 0.75 else int(rng.integers(2, 40))
            if res_id + step > top:
                if not chains:
                    break
                chain = chains.pop(0)
                res_id = int(pick(rng, starts))
            else:
                res_id += step
            if rng.random() < 0.08 and (chain, res_id) not in ins_used:
                ins_used[(chain, res_id)] = int(rng.integers(0, 5)) - 1 if False else 0
                # a residue whose first occurrence already carries an insertion code
    return residues


def flatten(residues):
    return [[r["chain"], r["res_id"], r["ins"], r["res_name"], r["hetero"], nm, el]
            for r in residues for nm, el in r["atoms"]]


def gen_coord_value(rng):
    r = rng.random()
    if r < 0.06:
        v = pick(rng, [x for x in COORD_EDGE if S.fmt_fits(f32(x), 3, 8)])
    elif r < 0.5:
        scale = pick(rng, [1.0, 10.0, 100.0, 1000.0, 9999.0])
        lo = -999.0 if scale > 999 else -scale
        k = int(rng.integers(int(lo * 1000), int(scale * 1000)))
        v = k / 1000.0 + pick(rng, [0.0, 0.0004, 0.0005, -0.0005, 0.0006, 0.00049])
    else:
        scale = pick(rng, [1.0, 10.0, 100.0, 999.0])
        v = float(rng.uniform(-scale, scale * (10 if scale > 900 and rng.random() < 0.5 else 1)))
    return f32(v)


def gen_real2_value(rng, fdtype):
    r = rng.random()
    if r < 0.1:
        v = pick(rng, [x for x in REAL2_EDGE if S.fmt_fits(x, 2, 6)])
    elif r < 0.6:
        k = int(rng.integers(-9999, 99999))
        v = k / 100.0 + pick(rng, [0.0, 0.004, 0.005, -0.005, 0.0049, 0.006])
    else:
        v = float(rng.uniform(-99.0, 999.0))
    return f32(v) if fdtype == "float32" else float(v)


def gen_cell(rng):
    kind = pick(rng, ["cubic", "ortho", "ortho", "mono", "hex", "tric", "tric", "near90", "skew", "aspect"])
    L = lambda: float(pick(rng, [1.0, 10.0, 100.0, 1000.0]) * rng.uniform(0.5, 9.99))
    if kind == "cubic":
        a = L()
        return [a, a, a, 90.0, 90.0, 90.0]
    if kind == "ortho":
        return [L(), L(), L(), 90.0, 90.0, 90.0]
    if kind == "mono":
        return [L(), L(), L(), 90.0, float(rng.uniform(91, 130)), 90.0]
    if kind == "hex":
        a = L()
        return [a, a, L(), 90.0, 90.0, 120.0]
    if kind == "near90":
        d = lambda: float(pick(rng, [0.01, 0.02, 0.05, 0.1, 0.5, 1.0, -0.01, -0.05, -0.3, 0.0]))
        return [L(), L(), L(), 90.0 + d(), 90.0 + d(), 90.0 + d()]
    if kind == "aspect":
        a, b, c = sorted([L(), L(), L()])
        small = float(rng.uniform(1.0, 20.0))
        vals = [small, float(rng.uniform(500, 9999)), float(rng.uniform(500, 9999))]
        vals = [vals[i] for i in rng.permutation(3)]
        return vals + [float(rng.uniform(60, 120)) if rng.random() < 0.5 else 90.0 for _ in range(3)]
    lo, hi = (5.0, 175.0) if kind == "skew" else (50.0, 130.0)
    for _ in range(100):
        al, be, ga = (float(rng.uniform(lo, hi)) for _ in range(3))
        ca, cb, cg = (math.cos(math.radians(x)) for x in (al, be, ga))
        if 1 - ca * ca - cb * cb - cg * cg + 2 * ca * cb * cg > 0.02:
            return [L(), L(), L(), al, be, ga]
    return [L(), L(), L(), 90.0, 90.0, 90.0]


def random_rotation(rng):
    q = rng.normal(size=4)
    q /= np.linalg.norm(q)
    w, x, y, z = q
    return np.array([[1 - 2 * (y * y + z * z), 2 * (x * y - z * w), 2 * (x * z + y * w)],
                     [2 * (x * y + z * w), 1 - 2 * (x * x + z * z), 2 * (y * z - x * w)],
                     [2 * (x * z - y * w), 2 * (y * z + x * w), 1 - 2 * (x * x + y * y)]])


def gen_box(rng):
    cell = gen_cell(rng)
    cell[3:] = [round(x, 4) for x in cell[3:]]
    try:
        v = np.array(S.cell_to_vectors(*cell))
    except ValueError:
        v = np.array(S.cell_to_vectors(cell[0], cell[1], cell[2], 90.0, 90.0, 90.0))
    rotated = bool(rng.random() < 0.2)
    if rotated:
        v = v @ random_rotation(rng).T
    else:
        v[np.abs(v) < 1e-9] = 0.0          # exact zeros where the angle is exactly 90 degrees
    return [[f32(x) for x in row] for row in v.astype(np.float32)], rotated


def small_component_box(box):
    """Does the cell of `box`, put into standard orientation, have a Cartesian
    component that is non-zero by design (>= 0.004 degree effect on an angle is not
    required; any component above 1e-7 x length counts) but smaller than 1.5e-4 x (a+b+c)?"""
    a, b, c, al, be, ga = S.vectors_to_cell(box)
    try:
        v = S.cell_to_vectors(a, b, c, al, be, ga)
    except (ValueError, ZeroDivisionError):
        return True
    tol = 1.5e-4 * (a + b + c)
    comps = [(v[0][0], a), (v[1][0], b), (v[1][1], b), (v[2][0], c), (v[2][1], c), (v[2][2], c)]
    for x, ln in comps:
        if 2e-6 * ln < abs(x) < tol:
            return True
    return False


def gen_bonds(rng, atoms, ccd, allow_same_resid=True):
    """Template bonds of known residues (mostly), canonical links, random hetero /
    inter-residue / intra-residue bonds, sometimes a hub atom with more than 4 partners."""
    n = len(atoms)
    seg = S.segment([a[0] for a in atoms], [a[1] for a in atoms], [a[2] for a in atoms], [a[3] for a in atoms])
    bonds = {}

    def add(i, j, t):
        if i != j:
            bonds.setdefault((min(i, j), max(i, j)), int(t))
    by_res = {}
    for i, s in enumerate(seg):
        by_res.setdefault(s, []).append(i)
    for s, idx in by_res.items():
        tb = ccd.template_bonds(atoms[idx[0]][3])
        if tb and rng.random() < 0.9:
            names = {atoms[i][5]: i for i in idx}
            for (a1, a2), t in tb.items():
                if a1 in names and a2 in names and rng.random() < 0.97:
                    add(names[a1], names[a2], t)
    if n >= 2:
        for _ in range(int(rng.integers(0, max(2, n // 2)))):
            i, j = int(rng.integers(n)), int(rng.integers(n))
            add(i, j, int(rng.integers(0, 10)))
        if rng.random() < 0.3 and n >= 6:
            hub = int(rng.integers(n))
            for j in rng.permutation(n)[: int(rng.integers(5, min(n, 9)))]:
                add(hub, int(j), int(rng.integers(0, 10)))
    out = []
    for (i, j), t in sorted(bonds.items()):
        if not allow_same_resid and seg[i] != seg[j] and atoms[i][0] == atoms[j][0] and atoms[i][1] == atoms[j][1]:
            continue
        out.append([i, j, t])
    return out


def gen_spec(rng, ccd, tier="quick", allow_empty_chain=True):
    hybrid = bool(rng.random() < 0.3)
    n = int(rng.choice([1, 2, 3, 5, 8, 12, 20, 35, 50], p=[.08, .1, .14, .18, .18, .14, .1, .05, .03]))
    residues = gen_residues(rng, ccd, n, hybrid, allow_empty_chain)
    atoms = flatten(residues)[:50]
    n = len(atoms)
    models = int(rng.choice([1, 2, 3], p=[0.55, 0.3, 0.15]))
    stack = True if models > 1 else bool(rng.random() < 0.4)
    coord = [[[gen_coord_value(rng) for _ in range(3)] for _ in range(n)] for _ in range(models)]
    fdtype = "float32" if rng.random() < 0.5 else "float64"
    spec = {"atoms": atoms, "coord": coord, "stack": stack, "fdtype": fdtype, "hybrid36": hybrid,
            "via": "convert" if rng.random() < 0.2 else "method",
            "atom_id": None, "b_factor": None, "occupancy": None, "charge": None, "box": None, "bonds": None}
    with_bonds = bool(rng.random() < 0.45)
    if rng.random() < 0.55:
        if hybrid:
            start = int(pick(rng, [1, 1, 0, 99990, 99999, 100000, 43770010, 87440031 - 3 * n - 2]))
            if with_bonds:
                start = min(start, 4_000_000)
        else:
            start = int(pick(rng, [1, 1, 0, 7, 500, 99999 - 3 * n - 2, 99999 - n + 1, -9999, -n - 3]))
            if with_bonds and start < 1:
                start = 1 if rng.random() < 0.7 else start
        ids, cur = [], start
        for _ in range(n):
            ids.append(cur)
            cur += 1 if rng.random() < 0.8 else int(rng.integers(2, 4))
        lim = 87440031 if hybrid else 99999
        if ids[-1] > lim:
            ids = [x - (ids[-1] - lim) for x in ids]
        if not with_bonds and rng.random() < 0.2:
            ids = [ids[i] for i in rng.permutation(n)]
        spec["atom_id"] = ids
    if rng.random() < 0.6:
        spec["b_factor"] = [gen_real2_value(rng, fdtype) for _ in range(n)]
    if rng.random() < 0.6:
        spec["occupancy"] = [gen_real2_value(rng, fdtype) for _ in range(n)]
    if rng.random() < 0.5:
        spec["charge"] = [int(rng.integers(-9, 10)) if rng.random() < 0.4 else 0 for _ in range(n)]
    if rng.random() < 0.4:
        spec["box"], spec["box_rotated"] = gen_box(rng)
    if with_bonds:
        spec["bonds"] = gen_bonds(rng, atoms, ccd)
    spec["read_bonds"] = bool(with_bonds or rng.random() < 0.15)
    return spec


# ------------------------------------------------------------------ limit mutations
def mutate_limits(rng, spec):
    """Put 1-3 values of `spec` on / next to a column limit.  Returns the list of
    mutation labels."""
    n = len(spec["atoms"])
    labels = []
    hy = spec["hybrid36"]
    for _ in range(int(rng.choice([1, 2, 3], p=[0.6, 0.3, 0.1]))):
        i = int(rng.integers(n))
        kind = pick(rng, ["coord", "coord", "b_factor", "occupancy", "charge", "res_id", "res_id", "atom_id",
                          "atom_id", "atom_name", "res_name", "chain", "ins", "element", "name_elem"])
        if kind == "coord":
            m = int(rng.integers(len(spec["coord"])))
            v = f32(pick(rng, COORD_EDGE))
            spec["coord"][m][i][int(rng.integers(3))] = v
            labels.append("coord=%r" % v)
        elif kind in ("b_factor", "occupancy"):
            if spec[kind] is None:
                spec[kind] = [0.0 if kind == "b_factor" else 1.0] * n
            v = pick(rng, REAL2_EDGE)
            v = f32(v) if spec["fdtype"] == "float32" else float(v)
            spec[kind][i] = v
            labels.append("%s=%r" % (kind, v))
        elif kind == "charge":
            if spec["charge"] is None:
                spec["charge"] = [0] * n
            spec["charge"][i] = int(pick(rng, CHARGE_EDGE))
            labels.append("charge=%d" % spec["charge"][i])
        elif kind == "res_id":
            v = int(pick(rng, RESID_EDGE_HY if hy else RESID_EDGE))
            # whole residue gets the new number (keeps atoms of a residue together)
            key = tuple(spec["atoms"][i][:4])
            for a in spec["atoms"]:
                if tuple(a[:4]) == key:
                    a[1] = v
            labels.append("res_id=%d" % v)
        elif kind == "atom_id":
            v = int(pick(rng, ATOMID_EDGE_HY if hy else ATOMID_EDGE))
            if spec["atom_id"] is None:
                spec["atom_id"] = list(range(1, n + 1))
            if v >= max(spec["atom_id"]):
                spec["atom_id"][n - 1] = v           # keep the sequence increasing when possible
            elif v <= min(spec["atom_id"]):
                spec["atom_id"][0] = v
            else:
                spec["atom_id"][i] = v
            labels.append("atom_id=%d" % v)
        elif kind == "atom_name":
            k = int(pick(rng, [0, 1, 4, 4, 5, 5, 6]))
            spec["atoms"][i][5] = rand_word(rng, ANYCH, k)
            labels.append("len(atom_name)=%d" % k)
        elif kind == "res_name":
            k = int(pick(rng, [0, 1, 3, 4, 4, 5]))
            w = rand_word(rng, RESCH, k)
            key = tuple(spec["atoms"][i][:4])
            for a in spec["atoms"]:
                if tuple(a[:4]) == key:
                    a[3] = w
            labels.append("len(res_name)=%d" % k)
        elif kind == "chain":
            k = int(pick(rng, [0, 0, 1, 2, 2, 3]))
            w = rand_word(rng, CHAINCH, k)
            old = spec["atoms"][i][0]
            for a in spec["atoms"]:
                if a[0] == old:
                    a[0] = w
            labels.append("len(chain_id)=%d" % k)
        elif kind == "ins":
            k = int(pick(rng, [0, 1, 2, 2]))
            w = rand_word(rng, "ABCXYZ", k)
            key = tuple(spec["atoms"][i][:4])
            for a in spec["atoms"]:
                if tuple(a[:4]) == key:
                    a[2] = w
            labels.append("len(ins_code)=%d" % k)
        elif kind == "element":
            k = int(pick(rng, [0, 1, 2, 3, 3]))
            spec["atoms"][i][6] = rand_word(rng, "ABCDEFGHIKLMNOPRSTUVWXYZ", k)
            labels.append("len(element)=%d" % k)
        else:
            nl, el = int(rng.integers(1, 5)), int(rng.integers(1, 3))
            used = {a[5] for a in spec["atoms"] if tuple(a[:4]) == tuple(spec["atoms"][i][:4])}
            nm, e = gen_name_elem(rng, used, nl, el)
            spec["atoms"][i][5], spec["atoms"][i][6] = nm, e
            labels.append("name/element=%s/%s" % (nm, e))
    return labels
