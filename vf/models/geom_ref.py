"""Float64 reference geometry for C15 / C16 (plain numpy, never calls biotite).

Everything takes arrays of any float dtype, converts to float64 and uses the
textbook definition.  The module also holds the format-derived tolerances
(DESIGN.md section 5).
"""

import numpy as np

EPS32 = float(np.finfo(np.float32).eps)
EPS64 = float(np.finfo(np.float64).eps)


def f64(x):
    return np.asarray(x, dtype=np.float64)


def eps_for(*arrays):
    """Unit round-off of the least precise float array among `arrays`."""
    for a in arrays:
        if np.asarray(a).dtype != np.float64:
            return EPS32
    return EPS64


# ---------------------------------------------------------------- rigid motions
def quat_rotation(rng):
    """Uniform random proper rotation from a random unit quaternion."""
    while True:
        q = rng.normal(size=4)
        n = np.sqrt((q * q).sum())
        if n > 1e-6:
            break
    w, x, y, z = q / n
    return np.array([
        [1 - 2 * (y * y + z * z), 2 * (x * y - z * w), 2 * (x * z + y * w)],
        [2 * (x * y + z * w), 1 - 2 * (x * x + z * z), 2 * (y * z - x * w)],
        [2 * (x * z - y * w), 2 * (y * z + x * w), 1 - 2 * (x * x + y * y)],
    ])


def axis_angle_matrix(axis, angle):
    """Rodrigues' formula, R = I + sin(a) K + (1 - cos(a)) K^2 with K the cross
    product matrix of the unit axis."""
    u = f64(axis)
    u = u / np.sqrt((u * u).sum())
    K = np.array([[0.0, -u[2], u[1]], [u[2], 0.0, -u[0]], [-u[1], u[0], 0.0]])
    return np.eye(3) + np.sin(angle) * K + (1.0 - np.cos(angle)) * (K @ K)


def euler_xyz_matrix(angles):
    """Rotation about x, then y, then z (extrinsic): R = Rz Ry Rx."""
    ax, ay, az = (float(a) for a in angles)
    return (axis_angle_matrix([0, 0, 1], az) @ axis_angle_matrix([0, 1, 0], ay)
            @ axis_angle_matrix([1, 0, 0], ax))


def move(x, R, t=0.0):
    """Rigid motion of row vectors: x R^T + t (float64)."""
    return f64(x) @ f64(R).T + f64(t)


# ---------------------------------------------------------------- textbook measures
def dist(a, b):
    d = f64(b) - f64(a)
    return np.sqrt((d * d).sum(axis=-1))


def cos_angle_vec(v1, v2):
    """cos of the angle between vectors, plus both lengths."""
    v1, v2 = f64(v1), f64(v2)
    l1 = np.sqrt((v1 * v1).sum(-1))
    l2 = np.sqrt((v2 * v2).sum(-1))
    with np.errstate(invalid="ignore", divide="ignore"):
        c = (v1 * v2).sum(-1) / (l1 * l2)
    return c, l1, l2


def cos_angle(a, b, c):
    """cos of the angle at b."""
    return cos_angle_vec(f64(a) - f64(b), f64(c) - f64(b))


def dihedral_vec(b1, b2, b3):
    """IUPAC dihedral from the three bond vectors a->b, b->c, c->d:
    atan2(|b2| b1.(b2 x b3), (b1 x b2).(b2 x b3)).  Also returns the sines of the
    two bond angles (conditioning) and the shortest bond length."""
    b1, b2, b3 = f64(b1), f64(b2), f64(b3)
    b1, b2, b3 = np.broadcast_arrays(b1, b2, b3)
    n1 = np.cross(b1, b2)
    n2 = np.cross(b2, b3)
    l1 = np.sqrt((b1 * b1).sum(-1))
    l2 = np.sqrt((b2 * b2).sum(-1))
    l3 = np.sqrt((b3 * b3).sum(-1))
    y = l2 * (b1 * n2).sum(-1)
    x = (n1 * n2).sum(-1)
    with np.errstate(invalid="ignore", divide="ignore"):
        s1 = np.sqrt((n1 * n1).sum(-1)) / (l1 * l2)
        s2 = np.sqrt((n2 * n2).sum(-1)) / (l2 * l3)
    return np.arctan2(y, x), s1, s2, np.minimum(np.minimum(l1, l2), l3)


def dihedral(a, b, c, d):
    a, b, c, d = f64(a), f64(b), f64(c), f64(d)
    return dihedral_vec(b - a, c - b, d - c)


def wrap_angle(x):
    """Difference of angles folded into (-pi, pi]."""
    return (f64(x) + np.pi) % (2 * np.pi) - np.pi


# ---------------------------------------------------------------- lattices
_R = 2
IJK = np.array([(i, j, k) for i in range(-_R, _R + 1) for j in range(-_R, _R + 1)
                for k in range(-_R, _R + 1)], dtype=np.float64)     # 125 images


def heights(box):
    """The three heights of the parallelepiped (distance between opposite faces):
    h_i = 1 / |i-th column of inv(box)|."""
    inv = np.linalg.inv(f64(box))
    return 1.0 / np.sqrt((inv * inv).sum(axis=0))


def lattice_residual(d, box):
    """Nearest integer combination of the box vectors to d.  Returns (n, |d - n box|)."""
    box = f64(box)
    d = f64(d)
    frac = d @ np.linalg.inv(box)
    n = np.rint(frac)
    res = d - n @ box
    return n, np.sqrt((res * res).sum(-1))


def min_image(diff, box, ijk=IJK):
    """Brute-force shortest periodic image of `diff` (..., 3) in one box (3, 3):
    reduce by the nearest lattice point, then search the 125 images i,j,k in -2..2.
    Returns (vector, length, length of the second-shortest image)."""
    box = f64(box)
    diff = f64(diff)
    frac = diff @ np.linalg.inv(box)
    red = diff - np.rint(frac) @ box
    cand = red[..., np.newaxis, :] + (ijk @ box)
    l2 = (cand * cand).sum(-1)
    idx = np.argmin(l2, axis=-1)
    best = np.take_along_axis(cand, idx[..., np.newaxis, np.newaxis], axis=-2)[..., 0, :]
    part = np.partition(l2, 1, axis=-1)
    return best, np.sqrt(part[..., 0]), np.sqrt(part[..., 1])


def box_cond(box):
    return float(np.linalg.cond(f64(box)))


def box_scale(box):
    b = f64(box)
    return float(np.sqrt((b * b).sum(-1)).max())


def pbc_tol(box, M, eps, k=16.0):
    """Bound for a float computation that goes coordinates -> fractions -> coordinates
    with inputs of magnitude M in a box of edge L and condition number kappa."""
    return k * eps * (M + box_scale(box)) * box_cond(box)


def unitcell_vectors(a, b, c, alpha, beta, gamma):
    """Own float64 formula for the canonical orientation (a on x, b in the xy plane)."""
    ca, cb, cg, sg = np.cos(alpha), np.cos(beta), np.cos(gamma), np.sin(gamma)
    cx = c * cb
    cy = c * (ca - cb * cg) / sg
    cz2 = c * c - cx * cx - cy * cy
    return np.array([[a, 0.0, 0.0], [b * cg, b * sg, 0.0], [cx, cy, np.sqrt(cz2)]])


def unitcell_volume_factor(alpha, beta, gamma):
    """V / (a b c) squared: 1 - ca^2 - cb^2 - cg^2 + 2 ca cb cg (positive iff the angles
    span a cell)."""
    ca, cb, cg = np.cos(alpha), np.cos(beta), np.cos(gamma)
    return 1 - ca * ca - cb * cb - cg * cg + 2 * ca * cb * cg


# ---------------------------------------------------------------- superimposition
def kabsch_optimum(fixed, mobile):
    """Minimum over all proper rigid motions g of sum_i |fixed_i - g(mobile_i)|^2,
    from the singular values of the cross-covariance with the reflection sign
    (Kabsch 1976/78, Umeyama 1991).  Returns (ssd_min, sum of squared centred norms)."""
    A = f64(fixed)
    B = f64(mobile)
    A = A - A.mean(axis=0)
    B = B - B.mean(axis=0)
    e0 = (A * A).sum() + (B * B).sum()
    H = B.T @ A
    s = np.linalg.svd(H, compute_uv=False)
    d = 1.0 if np.linalg.det(H) >= 0 else -1.0
    ssd = e0 - 2.0 * (s[0] + s[1] + d * s[2])
    return max(ssd, 0.0), e0


def rmsd(a, b):
    d = f64(a) - f64(b)
    return float(np.sqrt((d * d).sum(-1).mean()))


def small_rotations(rng, k, lo=-4.0, hi=-1.0):
    """k rotation matrices by angles 10^U(lo,hi) rad about random axes (vectorised
    Rodrigues)."""
    ax = rng.normal(size=(k, 3))
    ax /= np.sqrt((ax * ax).sum(-1))[:, None]
    ang = 10.0 ** rng.uniform(lo, hi, size=k) * rng.choice([-1.0, 1.0], size=k)
    K = np.zeros((k, 3, 3))
    K[:, 0, 1], K[:, 0, 2] = -ax[:, 2], ax[:, 1]
    K[:, 1, 0], K[:, 1, 2] = ax[:, 2], -ax[:, 0]
    K[:, 2, 0], K[:, 2, 1] = -ax[:, 1], ax[:, 0]
    return (np.eye(3)[None] + np.sin(ang)[:, None, None] * K
            + (1 - np.cos(ang))[:, None, None] * (K @ K))
