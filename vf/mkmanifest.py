"""Regenerate MANIFEST.json from the drivers present in vf/props."""
import importlib, json, os, sys
VERIF = os.path.dirname(os.path.dirname(os.path.abspath(__file__)))
sys.path.insert(0, VERIF)
props = [json.loads(l) for l in open(os.path.join(VERIF, "properties.jsonl"))]
checks, na = [], []
READY = set(open(os.path.join(VERIF, "vf", "ready.txt")).read().split())
for p in props:
    pid = p["id"]
    path = os.path.join(VERIF, "vf", "props", pid + ".py")
    if pid not in READY or not os.path.exists(path):
        na.append({"property_id": pid, "reason": "check not built yet (design in DESIGN.md section 6); not claimed until its driver exists and is silent on the unchanged tree"})
        continue
    m = importlib.import_module("vf.props." + pid)
    mf = m.MANIFEST
    checks.append({
        "property_id": pid,
        "quick_cmd": "./check %s --tier quick" % pid,
        "thorough_cmd": "./check %s --tier thorough" % pid,
        "evidence_file": "evidence/%s.json" % pid,
        "replay_cmd_template": "./check %s --replay {path}" % pid,
        "engine": "vf",
        "level_claimed": {"category": getattr(m, "LEVEL", "exploration"), "text": mf["level_text"], "design_ref": mf.get("design_ref", "DESIGN.md section 6")},
        "level_note": mf["level_note"],
        "technique": mf["technique"],
    })
man = {
    "version": 1,
    "setup_cmd": "./setup.sh",
    "hooks": {
        "guard": "BIOTITE_VERIF",
        "enable": "no hooks in /repo: all instrumentation attaches from the harness (method wrappers, icontract, sys.monitoring, sys.addaudithook, ASan/UBSan builds of the generated C in an overlay package)",
        "baseline_off_cmd": "cd /repo && /venv/bin/python -m pytest -ra -q -p no:cacheprovider --timeout=900 --continue-on-collection-errors",
        "source_commits": [],
        "add_only": True,
    },
    "engines": [{
        "name": "vf", "path": "vf/",
        "serves_properties": [c["property_id"] for c in checks],
        "kind_free_text": "runtime monitoring harness: seeded hostile workloads executed on the real biotite in subprocess workers (journalled before each case), lock-step reference models / differential oracles / invariant wrappers / audit-hook logs, clang ASan+UBSan builds of the Cython-generated C, process-exit monitor, reach counters",
    }],
    "checks": checks,
    "not_applicable": na,
    "notes": "Every check: ./check Cxx --tier quick|thorough (VERIF_SEED honoured). exit 0 held / exit 1 VIOLATION / exit 2 INCONCLUSIVE. known_findings.json lists genuine defects that are recorded, not repaired (Cython sources cannot be rebuilt here), and the fixed ones.",
}
json.dump(man, open(os.path.join(VERIF, "MANIFEST.json"), "w"), indent=1)
print("checks:", [c["property_id"] for c in checks], "not_applicable:", len(na))
