#!/bin/sh
# Offline setup: contracts library beside the repo's interpreter, native rebuild of both flavours.
cd "$(dirname "$0")" || exit 1
export PIP_NO_INDEX=1
mkdir -p .deps .build evidence
if [ ! -d .deps/icontract ]; then
  /venv/bin/python -m pip install -q --no-index --find-links /opt/veriftools/wheels --target .deps icontract deal || exit 1
fi
/venv/bin/python vf/sanbuild.py plain san || exit 1
