"""Synthetic Chemical Component Dictionary (CCD) for the checks C04 and C07.

The real ``components.bcif`` is absent in this sandbox.  This module describes a
small invented dictionary in plain Python (``describe()``), writes it as a
BinaryCIF file with the three categories biotite reads (``chem_comp``,
``chem_comp_atom``, ``chem_comp_bond``) (``build(path)``) and points biotite at it
(``activate()`` -> ``biotite.structure.info.set_ccd_path``).

Self-contained: imports only numpy and (inside ``build``/``activate``/``validate``)
biotite's own BinaryCIF writer and ``structure.info``.  The content is a constant;
``build`` is deterministic and writes atomically, so concurrent workers may call
``ensure``/``activate`` at the same time.

    from fixtures import ccd            # or load by path with importlib
    ccd.activate()                      # /verif/.build/ccd/components.bcif
    ccd.validate()                      # fixture audit: biotite returns what was written
    d = ccd.describe()
    d["chem_comp"]["ALA"]["type"]       # 'L-PEPTIDE LINKING'
    d["chem_comp_atom"]["ALA"]          # [{'atom_id': 'N', 'type_symbol': 'N', 'charge': 0, 'ideal': (x,y,z), 'model': (x,y,z), ...}, ...]
    d["chem_comp_bond"]["ALA"]          # [{'atom_id_1': 'N', 'atom_id_2': 'CA', 'value_order': 'SING', 'pdbx_aromatic_flag': 'N'}, ...]
    ccd.template_bonds("ALA")           # {('N','CA'): 1, ...}   BondType ints
    ccd.link_class("ALA")               # 'peptide' | 'nucleic' | None
"""

import hashlib
import json
import os

import numpy as np

DEFAULT_PATH = os.path.join(
    os.path.dirname(os.path.dirname(os.path.abspath(__file__))), ".build", "ccd", "components.bcif"
)

# (value_order, pdbx_aromatic_flag) -> biotite BondType integer (enum values of
# biotite.structure.BondType: ANY=0 SINGLE=1 DOUBLE=2 TRIPLE=3 QUADRUPLE=4
# AROMATIC_SINGLE=5 AROMATIC_DOUBLE=6 AROMATIC_TRIPLE=7 COORDINATION=8 AROMATIC=9)
BOND_TYPE_INT = {
    ("SING", "N"): 1, ("DOUB", "N"): 2, ("TRIP", "N"): 3, ("QUAD", "N"): 4,
    ("SING", "Y"): 5, ("DOUB", "Y"): 6, ("TRIP", "Y"): 7,
}
# what bonds._connect_inter_residue documents as linking residue types (upper case)
PEPTIDE_TYPES = ("PEPTIDE LINKING", "L-PEPTIDE LINKING", "D-PEPTIDE LINKING")
NUCLEOTIDE_TYPES = ("RNA LINKING", "DNA LINKING")

_MASS = {"H": 1.008, "C": 12.011, "N": 14.007, "O": 15.999, "P": 30.974, "S": 32.06,
         "ZN": 65.38, "MO": 95.95, "CL": 35.45, "F": 18.998, "FE": 55.845, "SE": 78.971}

_S, _D, _T, _Q = "SING", "DOUB", "TRIP", "QUAD"


def _c(cid, name, ctype, olc, atoms, bonds, leaving=()):
    return {"id": cid, "name": name, "type": ctype, "one_letter_code": olc,
            "atoms": atoms, "bonds": bonds, "leaving": tuple(leaving)}


def _a(spec):
    """'N CA C O' / 'ZN:ZN:2' -> [(atom_id, element, charge)]; element defaults to the
    leading letter of the atom name."""
    out = []
    for tok in spec.split():
        parts = tok.split(":")
        name = parts[0]
        elem = parts[1] if len(parts) > 1 and parts[1] else name[0]
        chg = int(parts[2]) if len(parts) > 2 else 0
        out.append((name, elem, chg))
    return out


def _b(spec):
    """'N-CA C=O C#N A~B(arom single) A:B(arom double) A%B(arom triple) A$B(quadruple)'"""
    out = []
    for tok in spec.split():
        for sym, (order, arom) in (("-", (_S, "N")), ("=", (_D, "N")), ("#", (_T, "N")), ("$", (_Q, "N")),
                                   ("~", (_S, "Y")), (":", (_D, "Y")), ("%", (_T, "Y"))):
            if sym in tok:
                a1, a2 = tok.split(sym)
                out.append((a1, a2, order, arom))
                break
        else:
            raise ValueError(tok)
    return out


_RIBOSE_ATOMS = "OP3 P OP1 OP2 O5' C5' C4' O4' C3' O3' C2' O2' C1'"
_RIBOSE_BONDS = ("OP3-P P=OP1 P-OP2 P-O5' O5'-C5' C5'-C4' C4'-O4' C4'-C3' O4'-C1' C3'-O3' C3'-C2' "
                 "C2'-O2' C2'-C1' C5'-H5' C5'-H5'' O3'-HO3' O2'-HO2'")
_RIBOSE_H = "H5' H5'' HO3' HO2'"

COMPONENTS = [
    # ---- look-alikes of real components (real atom names and bond orders)
    _c("ALA", "ALANINE", "L-PEPTIDE LINKING", "A",
       _a("N CA C O CB OXT H H2 HA HB1 HB2 HB3 HXT"),
       _b("N-CA N-H N-H2 CA-C CA-CB CA-HA C=O C-OXT CB-HB1 CB-HB2 CB-HB3 OXT-HXT"),
       leaving=("OXT", "H2", "HXT")),
    _c("GLY", "GLYCINE", "PEPTIDE LINKING", "G",
       _a("N CA C O OXT H H2 HA2 HA3 HXT"),
       _b("N-CA N-H N-H2 CA-C CA-HA2 CA-HA3 C=O C-OXT OXT-HXT"),
       leaving=("OXT", "H2", "HXT")),
    _c("A", "ADENOSINE-5'-MONOPHOSPHATE", "RNA LINKING", "A",
       _a(_RIBOSE_ATOMS + " N9 C8 N7 C5 C6 N6 N1 C2 N3 C4 " + _RIBOSE_H),
       _b(_RIBOSE_BONDS + " C1'-N9 N9~C8 N9~C4 C8:N7 N7~C5 C5~C6 C5:C4 C6-N6 C6:N1 N1~C2 C2:N3 N3~C4"),
       leaving=("OP3", "HO3'")),
    _c("U", "URIDINE-5'-MONOPHOSPHATE", "RNA LINKING", "U",
       _a(_RIBOSE_ATOMS + " N1 C2 O2 N3 C4 O4 C5 C6 " + _RIBOSE_H),
       _b(_RIBOSE_BONDS + " C1'-N1 N1-C2 N1-C6 C2=O2 C2-N3 N3-C4 C4=O4 C4-C5 C5=C6"),
       leaving=("OP3", "HO3'")),
    _c("HOH", "WATER", "NON-POLYMER", None, _a("O H1 H2"), _b("O-H1 O-H2")),
    # ---- invented components
    _c("DX", "INVENTED DEOXYNUCLEOTIDE", "DNA LINKING", "N",
       _a("P OP1 OP2 O5' C5' C4' O4' C3' O3' C2' C1' N1"),
       _b("P=OP1 P-OP2 P-O5' O5'-C5' C5'-C4' C4'-O4' C4'-C3' O4'-C1' C3'-O3' C3'-C2' C2'-C1' C1'-N1")),
    _c("XAA", "INVENTED THIOL AMINO ACID", "L-PEPTIDE LINKING", "X",
       _a("N CA C O CB SG H HA HG"),
       _b("N-CA N-H CA-C CA-CB CA-HA C=O CB-SG SG-HG")),
    _c("XDP", "INVENTED CYCLIC D-AMINO ACID", "D-PEPTIDE LINKING", "P",
       _a("N CA C O CB CG CD"),
       _b("N-CA CA-C C=O CA-CB CB-CG CG-CD CD-N")),
    _c("XAR", "INVENTED AROMATIC NITRILE", "NON-POLYMER", None,
       _a("C1 C2 C3 C4 C5 C6 O7 C8 C9 N10 H2 H3"),
       _b("C1:C2 C2~C3 C3:C4 C4~C5 C5:C6 C6~C1 C1-C8 C8=O7 C4-C9 C9#N10 C2-H2 C3-H3")),
    _c("XQD", "INVENTED DIMOLYBDENUM COMPLEX", "NON-POLYMER", None,
       _a("MO1:MO MO2:MO O1 O2 O3 O4"),
       _b("MO1$MO2 MO1-O1 MO1-O2 MO2-O3 MO2-O4")),
    _c("XCH", "INVENTED NITRO COMPOUND", "NON-POLYMER", None,
       _a("C1 N1::1 O1::-1 O2 CL1:CL F1"),
       _b("C1-N1 N1-O1 N1=O2 C1-CL1 C1-F1")),
    _c("XSU", "INVENTED PYRANOSE", "D-saccharide, beta linking", None,
       _a("C1 C2 C3 C4 C5 C6 O1 O2 O3 O4 O5 O6"),
       _b("C1-C2 C2-C3 C3-C4 C4-C5 C5-C6 C5-O5 O5-C1 C1-O1 C2-O2 C3-O3 C4-O4 C6-O6"),
       leaving=("O1",)),
    _c("XIO", "INVENTED ZINC ION", "NON-POLYMER", None, _a("ZN:ZN:2"), []),
    _c("XAT", "INVENTED AROMATIC TRIPLE", "NON-POLYMER", None,
       _a("C1 C2 C3 C4 SE1:SE"),
       _b("C1%C2 C2~C3 C3:C4 C4-SE1")),
    _c("XFE", "INVENTED IRON CENTRE", "NON-POLYMER", None,
       _a("FE:FE:3 N1 N2 N3 N4 S1"),
       _b("FE-N1 FE-N2 FE-N3 FE-N4 FE-S1")),
    _c("XPL", "INVENTED L-PEPTIDE TERMINUS", "L-peptide NH3 amino terminus", "X",
       _a("N CA C O"), _b("N-CA CA-C C=O")),
    _c("X2", "INVENTED TWO-LETTER LIGAND", "NON-POLYMER", None,
       _a("C1 O1 O1' O1''"), _b("C1=O1 C1-O1' C1-O1''")),
    _c("A1XYZ", "INVENTED FIVE-CHARACTER COMPONENT", "NON-POLYMER", None,
       _a("C1' N'A O\"B C2"), _b("C1'-N'A N'A=O\"B C1'-C2")),
]


def _coords(k):
    """Deterministic invented coordinates, exactly representable in float32."""
    ideal = (1.25 * k, 0.5 * ((k * 7) % 5) - 1.0, 0.25 * ((k * 3) % 7))
    model = (ideal[0] + 0.125, ideal[1] - 0.125, ideal[2] + 0.0625)
    return ideal, model


_CACHE = {}


def describe():
    """The dictionary content as plain Python data (no numpy, no biotite).
    Every call returns a fresh deep copy (safe to modify)."""
    import copy
    return copy.deepcopy(_described())


def _described():
    if "d" not in _CACHE:
        _CACHE["d"] = _describe()
    return _CACHE["d"]


def _describe():
    chem_comp, atoms, bonds = {}, {}, {}
    for c in COMPONENTS:
        arom_atoms = {a for b in c["bonds"] if b[3] == "Y" for a in b[:2]}
        alist = []
        for k, (name, elem, chg) in enumerate(c["atoms"]):
            ideal, model = _coords(k)
            alist.append({
                "atom_id": name, "type_symbol": elem, "charge": chg, "ideal": ideal, "model": model,
                "pdbx_aromatic_flag": "Y" if name in arom_atoms else "N",
                "pdbx_leaving_atom_flag": "Y" if name in c["leaving"] else "N",
            })
        names = [a[0] for a in c["atoms"]]
        assert len(set(names)) == len(names), c["id"]
        blist = []
        for a1, a2, order, arom in c["bonds"]:
            assert a1 in names and a2 in names and a1 != a2, (c["id"], a1, a2)
            blist.append({"atom_id_1": a1, "atom_id_2": a2, "value_order": order, "pdbx_aromatic_flag": arom})
        counts = {}
        for _, elem, _ in c["atoms"]:
            counts[elem] = counts.get(elem, 0) + 1
        formula = " ".join("%s%s" % (e.capitalize(), n if n > 1 else "") for e, n in sorted(counts.items()))
        chem_comp[c["id"]] = {
            "name": c["name"], "type": c["type"], "one_letter_code": c["one_letter_code"],
            "formula": formula,
            "formula_weight": round(sum(_MASS[e] * n for e, n in counts.items()), 3),
            "pdbx_formal_charge": sum(a[2] for a in c["atoms"]),
        }
        atoms[c["id"]] = alist
        bonds[c["id"]] = blist
    return {"chem_comp": chem_comp, "chem_comp_atom": atoms, "chem_comp_bond": bonds,
            "order": [c["id"] for c in COMPONENTS]}


def component_ids():
    return [c["id"] for c in COMPONENTS]


def template_bonds(comp_id):
    """{(atom_id_1, atom_id_2): BondType int} as written, or {} for an unknown component."""
    key = ("tb", comp_id)
    if key not in _CACHE:
        d = _described()["chem_comp_bond"].get(comp_id)
        _CACHE[key] = {} if d is None else {
            (b["atom_id_1"], b["atom_id_2"]): BOND_TYPE_INT[b["value_order"], b["pdbx_aromatic_flag"]] for b in d}
    return dict(_CACHE[key])


def link_class(comp_id):
    """'peptide' / 'nucleic' / None following the rule documented in
    biotite.structure.bonds (component type, compared in upper case)."""
    c = _described()["chem_comp"].get(str(comp_id).upper())
    if c is None:
        return None
    if c["type"] in PEPTIDE_TYPES:
        return "peptide"
    if c["type"] in NUCLEOTIDE_TYPES:
        return "nucleic"
    return None


def content_digest():
    if "digest" not in _CACHE:
        _CACHE["digest"] = hashlib.sha256(json.dumps(_described(), sort_keys=True).encode()).hexdigest()
    return _CACHE["digest"]


def tables():
    """The three categories as {category: {column: (list_of_values, mask_or_None)}};
    mask uses the BinaryCIF convention 0 present / 1 inapplicable ('.') / 2 missing ('?')."""
    d = describe()
    cc = {k: [] for k in ("id", "name", "type", "pdbx_type", "formula", "formula_weight", "one_letter_code",
                          "three_letter_code", "mon_nstd_parent_comp_id", "pdbx_synonyms", "pdbx_formal_charge")}
    olc_mask, missing = [], []
    ca = {k: [] for k in ("comp_id", "atom_id", "alt_atom_id", "type_symbol", "charge", "pdbx_align",
                          "pdbx_aromatic_flag", "pdbx_leaving_atom_flag", "pdbx_stereo_config",
                          "model_Cartn_x", "model_Cartn_y", "model_Cartn_z",
                          "pdbx_model_Cartn_x_ideal", "pdbx_model_Cartn_y_ideal", "pdbx_model_Cartn_z_ideal",
                          "pdbx_component_atom_id", "pdbx_component_comp_id", "pdbx_ordinal")}
    cb = {k: [] for k in ("comp_id", "atom_id_1", "atom_id_2", "value_order", "pdbx_aromatic_flag",
                          "pdbx_stereo_config", "pdbx_ordinal")}
    for cid in d["order"]:
        c = d["chem_comp"][cid]
        cc["id"].append(cid); cc["name"].append(c["name"]); cc["type"].append(c["type"])
        cc["pdbx_type"].append("ATOMP" if link_class(cid) == "peptide" else ("ATOMN" if link_class(cid) == "nucleic" else "HETAIN"))
        cc["formula"].append(c["formula"]); cc["formula_weight"].append(c["formula_weight"])
        cc["one_letter_code"].append(c["one_letter_code"] or "")
        olc_mask.append(0 if c["one_letter_code"] else 2)
        cc["three_letter_code"].append(cid)
        cc["mon_nstd_parent_comp_id"].append(""); cc["pdbx_synonyms"].append(""); missing.append(2)
        cc["pdbx_formal_charge"].append(c["pdbx_formal_charge"])
        for k, a in enumerate(d["chem_comp_atom"][cid], start=1):
            ca["comp_id"].append(cid); ca["atom_id"].append(a["atom_id"]); ca["alt_atom_id"].append(a["atom_id"])
            ca["type_symbol"].append(a["type_symbol"]); ca["charge"].append(a["charge"]); ca["pdbx_align"].append(1)
            ca["pdbx_aromatic_flag"].append(a["pdbx_aromatic_flag"])
            ca["pdbx_leaving_atom_flag"].append(a["pdbx_leaving_atom_flag"])
            ca["pdbx_stereo_config"].append("N")
            for ax, name in enumerate("xyz"):
                ca["model_Cartn_" + name].append(a["model"][ax])
                ca["pdbx_model_Cartn_%s_ideal" % name].append(a["ideal"][ax])
            ca["pdbx_component_atom_id"].append(a["atom_id"]); ca["pdbx_component_comp_id"].append(cid)
            ca["pdbx_ordinal"].append(k)
        for k, b in enumerate(d["chem_comp_bond"][cid], start=1):
            cb["comp_id"].append(cid); cb["atom_id_1"].append(b["atom_id_1"]); cb["atom_id_2"].append(b["atom_id_2"])
            cb["value_order"].append(b["value_order"]); cb["pdbx_aromatic_flag"].append(b["pdbx_aromatic_flag"])
            cb["pdbx_stereo_config"].append("N"); cb["pdbx_ordinal"].append(k)
    out = {"chem_comp": {}, "chem_comp_atom": {}, "chem_comp_bond": {}}
    for k, v in cc.items():
        mask = olc_mask if k == "one_letter_code" else (missing if k in ("mon_nstd_parent_comp_id", "pdbx_synonyms") else None)
        out["chem_comp"][k] = (v, mask)
    for k, v in ca.items():
        out["chem_comp_atom"][k] = (v, None)
    for k, v in cb.items():
        out["chem_comp_bond"][k] = (v, None)
    return out


def build(path=DEFAULT_PATH):
    """Write the dictionary as BinaryCIF (data block 'components') to `path`, atomically."""
    from biotite.structure.io.pdbx import (
        BinaryCIFBlock, BinaryCIFCategory, BinaryCIFColumn, BinaryCIFData, BinaryCIFFile,
    )

    def column(values, mask):
        if isinstance(values[0], str):
            arr = np.array(values, dtype=str)
        elif isinstance(values[0], int):
            arr = np.array(values, dtype=np.int32)
        else:
            arr = np.array(values, dtype=np.float64)
        if mask is None or not any(mask):
            return BinaryCIFColumn(BinaryCIFData(arr))
        return BinaryCIFColumn(BinaryCIFData(arr), BinaryCIFData(np.array(mask, dtype=np.uint8)))

    block = BinaryCIFBlock()
    for cat_name, cols in tables().items():
        block[cat_name] = BinaryCIFCategory({k: column(v, m) for k, (v, m) in cols.items()})
    f = BinaryCIFFile({"components": block})
    os.makedirs(os.path.dirname(os.path.abspath(path)), exist_ok=True)
    tmp = "%s.%d.tmp" % (path, os.getpid())
    f.write(tmp)
    os.replace(tmp, path)
    with open(tmp + ".sha", "w") as fh:
        fh.write(content_digest())
    os.replace(tmp + ".sha", path + ".sha256")
    return path


def ensure(path=DEFAULT_PATH):
    """Build unless a file with the current content digest is already there."""
    try:
        if os.path.getsize(path) > 0 and open(path + ".sha256").read().strip() == content_digest():
            return path
    except OSError:
        pass
    return build(path)


def activate(path=DEFAULT_PATH):
    """ensure(path) and make it biotite's component dictionary (clears biotite's caches)."""
    import biotite.structure.info as info
    ensure(path)
    info.set_ccd_path(path)
    return path


def validate():
    """Fixture audit: biotite's accessors return what describe() says.  Call after
    activate().  Returns the number of comparisons; raises AssertionError otherwise."""
    import biotite.structure.info as info
    d = describe()
    n = 0
    for cid in d["order"]:
        assert info.link_type(cid) == d["chem_comp"][cid]["type"], ("link_type", cid, info.link_type(cid))
        assert info.one_letter_code(cid) == d["chem_comp"][cid]["one_letter_code"], ("one_letter_code", cid)
        assert info.full_name(cid) == d["chem_comp"][cid]["name"], ("full_name", cid)
        got = {k: int(v) for k, v in info.bonds_in_residue(cid).items()}
        assert got == template_bonds(cid), ("bonds_in_residue", cid, got)
        n += 4
        res = info.residue(cid)
        exp = d["chem_comp_atom"][cid]
        assert res.atom_name.tolist() == [a["atom_id"] for a in exp], ("atom_name", cid)
        assert res.element.tolist() == [a["type_symbol"] for a in exp], ("element", cid)
        assert res.charge.tolist() == [a["charge"] for a in exp], ("charge", cid)
        assert np.array_equal(res.coord, np.array([a["ideal"] for a in exp], dtype=np.float32)), ("coord", cid)
        bset = {(min(int(i), int(j)), max(int(i), int(j)), int(t)) for i, j, t in res.bonds.as_array()}
        names = [a["atom_id"] for a in exp]
        eset = set()
        for (a1, a2), t in template_bonds(cid).items():
            i, j = names.index(a1), names.index(a2)
            eset.add((min(i, j), max(i, j), t))
        assert bset == eset, ("residue bonds", cid)
        n += 5
    assert info.link_type("QQQ") is None and info.bonds_in_residue("QQQ") == {}
    assert sorted(info.amino_acid_names()) == sorted(
        c for c in d["order"] if d["chem_comp"][c]["type"].lower() in
        ("l-peptide linking", "d-peptide linking", "peptide linking", "l-peptide nh3 amino terminus"))
    assert sorted(info.nucleotide_names()) == sorted(
        c for c in d["order"] if d["chem_comp"][c]["type"].lower() in ("rna linking", "dna linking"))
    assert info.carbohydrate_names() == ["XSU"]
    return n + 5


if __name__ == "__main__":
    p = activate()
    print(p, os.path.getsize(p), "bytes;", validate(), "comparisons;", len(COMPONENTS), "components")
