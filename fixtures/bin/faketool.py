#!/venv/bin/python -SE
"""Fake external MSA programs for C20.  The personality is the name the script is
invoked as (clustalo / muscle3 / muscle5 / mafft / echo); the behaviour is taken
from $VF_FAKE_MODE: ok | reorder | exit3 | hang | garbage | missing | notree | killed11 | killed9.
The 'alignment' is deterministic: every sequence right-padded with '-' to the
longest one (left-padded for odd indices when VF_FAKE_PAD=alt)."""
import os
import sys
import time

name = os.path.basename(sys.argv[0])
argv = sys.argv[1:]
mode = os.environ.get("VF_FAKE_MODE", "ok")
if mode == "hang" and os.environ.get("VF_FAKE_IGNTERM"):
    # a stubborn program: polite termination requests are ignored (before the log line is written,
    # so that a driver that has seen the line knows the handler is in place)
    import signal
    signal.signal(signal.SIGTERM, signal.SIG_IGN)
    signal.signal(signal.SIGINT, signal.SIG_IGN)
    signal.signal(signal.SIGHUP, signal.SIG_IGN)
log = os.environ.get("VF_FAKE_LOG")
if log:
    with open(log, "a") as f:
        f.write("%s\t%s\t%s\t%s\n" % (name, mode, os.getcwd(), "\x1f".join(argv)))

# version probes (constructor time) always answer
if name.startswith("muscle") and argv[:1] == ["-version"]:
    print("MUSCLE v3.8.31 by Robert C. Edgar" if name == "muscle3" else "muscle 5.1.linux64 [12f0e2]")
    sys.exit(0)


def die_by_signal():
    """valid output was written, then the program dies from a signal (negative return code for the parent)"""
    import signal
    sys.stdout.flush()
    os.kill(os.getpid(), signal.SIGKILL if mode == "killed9" else signal.SIGSEGV)


def read_fasta(path):
    recs, h = [], None
    for line in open(path):
        line = line.rstrip("\n")
        if line.startswith(">"):
            h = line[1:]
            recs.append([h, ""])
        elif h is not None:
            recs[-1][1] += line.strip()
    return recs


def opt(flag):
    return argv[argv.index(flag) + 1] if flag in argv else None


if name == "echo":
    if mode == "hang":
        time.sleep(60)
    if mode == "exit3":
        sys.stderr.write("simulated failure\n")
        sys.exit(3)
    sys.stdout.write("ECHO " + " ".join(argv) + "\n")
    if mode.startswith("killed"):
        die_by_signal()
    sys.exit(0)

if name == "clustalo":
    inp, out, tree = opt("--in"), opt("--out"), opt("--guidetree-out")
elif name == "muscle3":
    inp, out, tree = opt("-in"), opt("-out"), opt("-tree1")
elif name == "muscle5":
    inp = opt("-align") or opt("-super5")
    out, tree = opt("-output"), None
elif name == "mafft":
    inp, out = argv[-1], None
    tree = inp + ".tree"
else:
    sys.stderr.write("unknown personality %s\n" % name)
    sys.exit(64)
if inp is None or not os.path.exists(inp):
    sys.stderr.write("no input\n")
    sys.exit(65)
for flag in ("-matrix", "--aamatrix"):
    if flag in argv and not os.path.getsize(opt(flag)):
        sys.stderr.write("empty matrix file\n")
        sys.exit(66)

if mode == "hang":
    time.sleep(60)
    sys.exit(0)
if mode == "exit3":
    sys.stderr.write("simulated\nfailure\n")
    sys.exit(3)

recs = read_fasta(inp)
width = max((len(s) for _, s in recs), default=0)
alt = os.environ.get("VF_FAKE_PAD") == "alt"
rows = []
for k, (h, s) in enumerate(recs):
    pad = "-" * (width - len(s))
    rows.append((h, (pad + s) if (alt and k % 2) else (s + pad)))
if mode == "reorder":
    perm = os.environ.get("VF_FAKE_PERM")
    if perm:
        rows = [rows[int(k)] for k in perm.split(",") if int(k) < len(rows)]
    else:
        rows = rows[::-1]
if mode == "missing":
    rows = rows[:-1]
text = "".join(">%s\n%s\n" % (h, r) for h, r in rows)
if mode == "garbage":
    text = "this is not\x00 an alignment\n@@@\n"

if out is None:
    sys.stdout.write(text)
else:
    with open(out, "w") as f:
        f.write(text)

if name == "clustalo" and opt("--distmat-out") and mode not in ("garbage",):
    # full distance matrix output: first line the number of sequences, then 'label d d d ...' per sequence
    nrec = len(recs)
    with open(opt("--distmat-out"), "w") as f:
        f.write("%d\n" % nrec)
        for a in range(nrec):
            f.write("%s %s\n" % (recs[a][0], " ".join("%.6f" % (0.0 if a == b else 0.1 * (1 + abs(a - b))) for b in range(nrec))))

if tree and mode != "notree":
    n = len(recs)
    def leaf(i):
        return ("%d_%s" % (i + 1, recs[i][0])) if name == "mafft" else recs[i][0]
    nw = leaf(0) + ":0.1"
    for i in range(1, n):
        nw = "(%s,%s:0.1):0.1" % (nw, leaf(i))
    nw = nw.rsplit(":", 1)[0] + ";"
    with open(tree, "w") as f:
        f.write(nw + "\n")
    if name == "muscle3":
        t2 = opt("-tree2")
        if t2:
            with open(t2, "w") as f:
                f.write(nw + "\n")
if mode.startswith("killed"):
    die_by_signal()
sys.exit(0)
