#!/venv/bin/python
"""Mechanical mutation sweep over the anchored pure-Python functions of one property.

  automut.py gen  Cxx                      -> list the mutants (json lines on stdout)
  automut.py run  Cxx --lane L [--sample K] [--rseed S] [--scale F] [--jobs J]
                                           -> apply each sampled mutant in the lane's scratch worktree
                                              (/var/tmp/automut-wt-L, never /repo), run `./check Cxx --tier quick`
                                              against it via VERIF_REPO, append the outcome to /var/tmp/automut/Cxx.jsonl
  automut.py survivors Cxx                 -> print the mutants the check did not report

The mutation sites are the functions named in the driver's ANCHORS list (module:Class.func), i.e. exactly the code the
reach counters of the check watch.  Operators: comparison boundary/negation, +/- swap, dropped '+ 1' / '- 1',
and/or swap, dropped 'not', integer constant +-1, dropped '.copy()', negated if-test, True/False swap,
deleted call statement / augmented assignment.  Survivors are triaged by hand (equivalent / killed by the repository's
own tests / outside the statement / real miss -> strengthen the driver); the result is recorded in DESIGN.md 10.3.
"""
import argparse
import ast
import importlib
import json
import os
import random
import re
import subprocess
import sys
import time

sys.path.insert(0, "/verif")
REPO = "/repo"
OUT = "/var/tmp/automut"


def anchors(pid):
    m = importlib.import_module("vf.props.%s" % pid)
    return list(getattr(m, "ANCHORS", []))


def find_func(tree, qual):
    parts = qual.rstrip("!").split(".")
    node = tree
    for p in parts:
        nxt = None
        for ch in ast.iter_child_nodes(node):
            if isinstance(ch, (ast.FunctionDef, ast.ClassDef, ast.AsyncFunctionDef)) and ch.name == p:
                nxt = ch
        if nxt is None:
            return None
        node = nxt
    return node


class Src:
    def __init__(self, path):
        self.path = path
        self.text = open(path, encoding="utf-8").read()
        self.lines = self.text.split("\n")
        self.starts = [0]
        for l in self.lines:
            self.starts.append(self.starts[-1] + len(l.encode("utf-8")) + 1)
        self.bytes = self.text.encode("utf-8")

    def off(self, lineno, col):
        return self.starts[lineno - 1] + col

    def seg(self, node):
        return self.off(node.lineno, node.col_offset), self.off(node.end_lineno, node.end_col_offset)


CMP = {ast.Lt: ("<", ["<="]), ast.LtE: ("<=", ["<"]), ast.Gt: (">", [">="]), ast.GtE: (">=", [">"]),
       ast.Eq: ("==", ["!="]), ast.NotEq: ("!=", ["=="]), ast.Is: ("is", ["is not"]), ast.IsNot: ("is not", ["is"]),
       ast.In: ("in", ["not in"]), ast.NotIn: ("not in", ["in"])}


def mutants_of(src, fn, qual):
    out = []
    b = src.bytes

    sig_nodes = set()
    for dflt in list(fn.args.defaults) + [d for d in fn.args.kw_defaults if d is not None]:
        for sub in ast.walk(dflt):
            sig_nodes.add(id(sub))

    def add(a, e, new, op, node):
        old = b[a:e].decode()
        if old == new:
            return
        out.append({"file": src.path, "func": qual, "line": node.lineno, "a": a, "e": e, "old": old, "new": new, "op": op,
                    "sig": id(node) in sig_nodes})

    # constants inside error messages / raise statements / warnings only change diagnostics: not mutated
    skip = set()
    for node in ast.walk(fn):
        if isinstance(node, (ast.Raise, ast.JoinedStr, ast.Assert)) or (
                isinstance(node, ast.Call) and isinstance(node.func, ast.Attribute) and node.func.attr == "warn"):
            for sub in ast.walk(node):
                skip.add(id(sub))
    for node in ast.walk(fn):
        if id(node) in skip:
            continue
        if isinstance(node, ast.Expr) and isinstance(node.value, ast.Constant) and isinstance(node.value.value, str):
            continue
        if isinstance(node, ast.Compare) and len(node.ops) == 1:
            op = type(node.ops[0])
            if op in CMP:
                la, le = src.seg(node.left)
                ra, re_ = src.seg(node.comparators[0])
                mid = b[le:ra].decode()
                tok, repl = CMP[op]
                m = re.search(r"(?<![<>=!])" + re.escape(tok).replace(r"\ ", r"\s+") + r"(?![=])", mid)
                if m:
                    for r in repl:
                        add(le + len(mid[:m.start()].encode()), le + len(mid[:m.end()].encode()), r, "cmp", node)
        elif isinstance(node, ast.BinOp) and isinstance(node.op, (ast.Add, ast.Sub)):
            la, le = src.seg(node.left)
            ra, re_ = src.seg(node.right)
            mid = b[le:ra].decode()
            tok = "+" if isinstance(node.op, ast.Add) else "-"
            k = mid.find(tok)
            if k >= 0 and not isinstance(node.left, ast.Constant) or (k >= 0 and not isinstance(getattr(node.left, "value", None), str)):
                add(le + k, le + k + 1, "-" if tok == "+" else "+", "addsub", node)
                if isinstance(node.right, ast.Constant) and node.right.value == 1:
                    add(le, re_, "", "drop_pm1", node)
        elif isinstance(node, ast.BoolOp):
            tok = "and" if isinstance(node.op, ast.And) else "or"
            for x, y in zip(node.values, node.values[1:]):
                xa, xe = src.seg(x)
                ya, ye = src.seg(y)
                mid = b[xe:ya].decode()
                m = re.search(r"\b%s\b" % tok, mid)
                if m:
                    add(xe + m.start(), xe + m.end(), "or" if tok == "and" else "and", "andor", node)
        elif isinstance(node, ast.UnaryOp) and isinstance(node.op, ast.Not):
            a, e = src.seg(node)
            oa, oe = src.seg(node.operand)
            add(a, oa, "", "drop_not", node)
        elif isinstance(node, ast.Constant) and type(node.value) is int and 0 <= node.value <= 64:
            a, e = src.seg(node)
            add(a, e, str(node.value + 1), "const+1", node)
            if node.value > 0:
                add(a, e, str(node.value - 1), "const-1", node)
        elif isinstance(node, ast.Constant) and type(node.value) is bool:
            a, e = src.seg(node)
            add(a, e, str(not node.value), "bool", node)
        elif isinstance(node, ast.Call) and isinstance(node.func, ast.Attribute) and node.func.attr == "copy" and not node.args and not node.keywords:
            a, e = src.seg(node)
            va, ve = src.seg(node.func.value)
            add(ve, e, "", "drop_copy", node)
        elif isinstance(node, (ast.If, ast.While)) or isinstance(node, ast.IfExp):
            a, e = src.seg(node.test)
            add(a, e, "not (" + b[a:e].decode() + ")", "neg_test", node)
        elif isinstance(node, ast.Expr) and isinstance(node.value, ast.Call) and node.lineno == node.end_lineno:
            a, e = src.seg(node)
            add(a, e, "pass", "del_call", node)
        elif isinstance(node, ast.AugAssign) and node.lineno == node.end_lineno:
            a, e = src.seg(node)
            add(a, e, "pass", "del_augassign", node)
    return out


def generate(pid, repo=REPO):
    res, seen = [], set()
    for anc in anchors(pid):
        mod, qual = anc.split(":")
        rel = "src/" + mod.replace(".", "/") + ".py"
        path = os.path.join(repo, rel)
        if not os.path.exists(path):
            continue          # Cython module: cannot be rebuilt here
        src = Src(path)
        fn = find_func(ast.parse(src.text), qual)
        if fn is None:
            continue
        for m in mutants_of(src, fn, qual.rstrip("!")):
            key = (rel, m["a"], m["e"], m["new"])
            if key in seen:
                continue
            seen.add(key)
            m["file"] = rel
            m["id"] = "%s:%d:%s:%s" % (rel.split("/")[-1], m["line"], m["op"], len(res))
            res.append(m)
    return res


def ensure_lane(lane):
    wt = "/var/tmp/automut-wt-%s" % lane
    head = subprocess.run(["git", "-C", REPO, "rev-parse", "HEAD"], capture_output=True, text=True).stdout.strip()
    cur = subprocess.run(["git", "-C", wt, "rev-parse", "HEAD"], capture_output=True, text=True).stdout.strip() if os.path.isdir(wt) else ""
    if cur != head:
        subprocess.run(["git", "-C", REPO, "worktree", "remove", "--force", wt], capture_output=True)
        subprocess.run(["rm", "-rf", wt])
        subprocess.run(["/verif/tools/mk_worktree.sh", wt], check=True, capture_output=True)
    subprocess.run(["git", "-C", wt, "checkout", "-q", "--", "."], check=True)
    return wt


def run(pid, lane, sample, rseed, scale, jobs, only_ops=None, sig_only=False):
    os.makedirs(OUT, exist_ok=True)
    wt = ensure_lane(lane)
    muts = generate(pid)
    if sig_only:
        muts = [m for m in muts if m.get("sig")]
    if only_ops:
        muts = [m for m in muts if m["op"] in only_ops]
    done = set()
    logp = os.path.join(OUT, "%s.jsonl" % pid)
    if os.path.exists(logp):
        for l in open(logp):
            try:
                r = json.loads(l)
                done.add((r["file"], r["a"], r["e"], r["new"]))
            except Exception:
                pass
    rnd = random.Random(rseed)
    # stratified: round-robin over functions so that every anchored function gets mutants
    byf = {}
    for m in muts:
        byf.setdefault(m["func"], []).append(m)
    for v in byf.values():
        rnd.shuffle(v)
    order = []
    while any(byf.values()) and len(order) < sample:
        for f in sorted(byf):
            if byf[f] and len(order) < sample:
                order.append(byf[f].pop())
    env = dict(os.environ, VERIF_REPO=wt, VERIF_EVIDENCE_DIR="/var/tmp/automut/evidence-%s" % lane,
               VERIF_SCALE=str(scale), VERIF_JOBS=str(jobs))
    for m in order:
        if (m["file"], m["a"], m["e"], m["new"]) in done:
            continue
        path = os.path.join(wt, m["file"])
        data = open(path, "rb").read()
        if data[m["a"]:m["e"]].decode() != m["old"]:
            continue
        new = data[:m["a"]] + m["new"].encode() + data[m["e"]:]
        try:
            compile(new, path, "exec")
        except SyntaxError:
            continue
        open(path, "wb").write(new)
        t0 = time.time()
        try:
            p = subprocess.run(["./check", pid, "--tier", "quick"], cwd="/verif", env=env, capture_output=True, text=True, timeout=1500)
            rc, outp = p.returncode, p.stdout + p.stderr
        except subprocess.TimeoutExpired:
            rc, outp = 124, "timeout"
        finally:
            open(path, "wb").write(data)
        first = ""
        for l in outp.splitlines():
            if re.match(r"^  (stratum|probe)=", l) or "INCONCLUSIVE" in l or "selftest" in l.lower():
                first = l.strip()[:240]
                break
        rec = dict(m, rc=rc, first=first, secs=round(time.time() - t0, 1))
        with open(logp, "a") as f:
            f.write(json.dumps(rec) + "\n")
        print("%s rc=%d %.0fs %s -> %s | %s" % (m["id"], rc, rec["secs"], m["old"][:30].replace("\n", " "), m["new"][:30], first[:100]), flush=True)
    subprocess.run(["git", "-C", wt, "checkout", "-q", "--", "."])


def rerun(pid, lane, scale, jobs):
    """Run the survivors of the log again (e.g. at full scale); outcomes are appended to Cxx-rerun.jsonl."""
    wt = ensure_lane(lane)
    logp = os.path.join(OUT, "%s.jsonl" % pid)
    env = dict(os.environ, VERIF_REPO=wt, VERIF_EVIDENCE_DIR="/var/tmp/automut/evidence-%s" % lane, VERIF_SCALE=str(scale), VERIF_JOBS=str(jobs))
    seen = set()
    for l in open(logp):
        r = json.loads(l)
        key = (r["file"], r["a"], r["e"], r["new"])
        if r["rc"] != 0 or key in seen:
            continue
        seen.add(key)
        path = os.path.join(wt, r["file"])
        data = open(path, "rb").read()
        if data[r["a"]:r["e"]].decode() != r["old"]:
            print("stale offsets:", r["id"]); continue
        open(path, "wb").write(data[:r["a"]] + r["new"].encode() + data[r["e"]:])
        try:
            p = subprocess.run(["./check", pid, "--tier", "quick"], cwd="/verif", env=env, capture_output=True, text=True, timeout=3000)
            rc, outp = p.returncode, p.stdout + p.stderr
        except subprocess.TimeoutExpired:
            rc, outp = 124, "timeout"
        finally:
            open(path, "wb").write(data)
        first = ""
        for ln in outp.splitlines():
            if re.match(r"^  (stratum|probe)=", ln) or "INCONCLUSIVE" in ln:
                first = ln.strip()[:200]; break
        with open(os.path.join(OUT, "%s-rerun.jsonl" % pid), "a") as f:
            f.write(json.dumps(dict(r, rc=rc, first=first, scale=scale)) + "\n")
        print("%s rc=%d [%s -> %s] %s" % (r["id"], rc, r["old"][:30], r["new"][:30], first[:120]), flush=True)


def survivors(pid):
    logp = os.path.join(OUT, "%s.jsonl" % pid)
    n = k = 0
    for l in open(logp):
        r = json.loads(l)
        n += 1
        if r["rc"] == 0:
            k += 1
            print("%s  %s:%d  %s  [%r -> %r]" % (r["id"], r["file"], r["line"], r["func"], r["old"][:50], r["new"][:50]))
    print("# %s: %d mutants run, %d not reported" % (pid, n, k))


if __name__ == "__main__":
    ap = argparse.ArgumentParser()
    ap.add_argument("cmd", choices=["gen", "run", "survivors", "count", "rerun"])
    ap.add_argument("pid")
    ap.add_argument("--lane", default="0")
    ap.add_argument("--sample", type=int, default=40)
    ap.add_argument("--rseed", type=int, default=1)
    ap.add_argument("--scale", type=float, default=0.3)
    ap.add_argument("--jobs", type=int, default=3)
    ap.add_argument("--ops", default="")
    ap.add_argument("--sig-only", action="store_true", help="only mutate default values in the signatures")
    a = ap.parse_args()
    if a.cmd == "gen":
        for m in generate(a.pid):
            print(json.dumps(m))
    elif a.cmd == "count":
        ms = generate(a.pid)
        ops = {}
        for m in ms:
            ops[m["op"]] = ops.get(m["op"], 0) + 1
        print(a.pid, len(ms), ops)
    elif a.cmd == "rerun":
        rerun(a.pid, a.lane, a.scale, a.jobs)
    elif a.cmd == "run":
        run(a.pid, a.lane, a.sample, a.rseed, a.scale, a.jobs, set(a.ops.split(",")) if a.ops else None, a.sig_only)
    else:
        survivors(a.pid)
