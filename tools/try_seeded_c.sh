#!/bin/sh
# usage: try_seeded_c.sh SEEDDIR "C19" [tier]   (seed with patch.diff for the .pyx and c.patch for the generated C)
S="$1"; PROPS="$2"; TIER="${3:-quick}"
cd /verif || exit 2
git -C /repo diff --quiet || { echo "/repo has uncommitted changes"; exit 2; }
CF=$(grep -m1 '^--- ' "$S/c.patch" | awk '{print $2}')
case "$CF" in /repo/src/*) ;; *) echo "unexpected c.patch target $CF"; exit 2;; esac
cp "$CF" /var/tmp/seed_c_backup.$$ || exit 2
restore() { cp /var/tmp/seed_c_backup.$$ "$CF"; rm -f /var/tmp/seed_c_backup.$$; git -C /repo checkout -- . ; }
trap restore EXIT
git -C /repo apply "$S/patch.diff" || echo "(pyx patch did not apply; continuing with the C patch only)"
patch -s "$CF" < "$S/c.patch" || { echo "c.patch does not apply"; exit 2; }
for p in $PROPS; do
  out=$(VERIF_JOBS=${VERIF_JOBS:-8} ./check $p --tier $TIER 2>&1); rc=$?
  echo "== $p rc=$rc"; echo "$out" | grep -E "^VIOLATION|^  (stratum|probe)=|INCONCLUSIVE|STALE" | head -5
  echo "$out" | tail -1
done
