#!/usr/bin/env python3
"""Round-2 prompt: as seed_prompt.py, plus the mechanisms already seeded in round 1 (to be avoided) and a push towards
multi-step / two-site / state-leak changes.  Still nothing from the checks themselves."""
import glob, json, subprocess, sys
pid = sys.argv[1]
extra = sys.argv[2] if len(sys.argv) > 2 else ""
prev = []
for p in sorted(glob.glob("/verif/seeded/%s-*/meta.json" % pid)):
    m = json.load(open(p))
    prev.append("- %s" % (m.get("mechanism", "")[:300]))
r2 = ("ROUND 2. Earlier engineers already seeded the following changes for this property; do NOT repeat them or close variants, and "
      "pick different functions/mechanisms:\n" + "\n".join(prev) + "\n"
      "This time favour changes of these kinds: (a) two cooperating sites that each look fine alone (e.g. a writer and a reader that "
      "both change a convention so simple round trips still work but one of the less common paths breaks); (b) state that leaks between "
      "calls or objects (a cache that is not invalidated, an argument or default object that is mutated, a view returned where a copy "
      "was, shared class-level state); (c) rarely taken branches (empty inputs, single elements, maximal widths, the second and later "
      "items of a batch, the last chunk); (d) error paths (an exception raised after a partial mutation, a missing clean-up step, an "
      "error that is swallowed and replaced by a plausible default).  Avoid mutations that only weaken input validation of obviously "
      "invalid input.\n")
out = subprocess.run([sys.executable, "/verif/tools/seed_prompt.py", pid, r2 + extra], capture_output=True, text=True).stdout
print(out.replace("/tmp/seed-%s" % pid, "/tmp/seed2-%s" % pid).replace("/tmp/wt-%s" % pid, "/tmp/wt2-%s" % pid))
