#!/bin/sh
# usage: try_seeded.sh PATCH "C01 C02 ..." [tier]  -> applies PATCH to /repo, runs the checks, reverts.
P="$1"; PROPS="$2"; TIER="${3:-quick}"
cd /verif || exit 2
git -C /repo diff --quiet || { echo "/repo has uncommitted changes"; exit 2; }
git -C /repo apply "$P" || { echo "patch does not apply"; exit 2; }
trap 'git -C /repo checkout -- . ; git -C /repo clean -fdq -- src tests 2>/dev/null' EXIT
for p in $PROPS; do
  out=$(VERIF_JOBS=${VERIF_JOBS:-8} ./check $p --tier $TIER 2>&1); rc=$?
  echo "== $p rc=$rc"; echo "$out" | grep -E "^VIOLATION|^  (stratum|probe)=|INCONCLUSIVE" | head -6
  echo "$out" | tail -1
done
