#!/usr/bin/env python3
"""Round-4 prompt (derived from round 3; other emphasis)
Round-3 prompt: property text + everything seeded so far for it (to avoid) + a push towards API surface that the
earlier rounds did not touch and towards faults in *returned* objects (aliases of internal state, results that
depend on call order)."""
import glob, json, subprocess, sys
pid = sys.argv[1]
extra = sys.argv[2] if len(sys.argv) > 2 else ""
prev = []
for p in sorted(glob.glob("/verif/seeded/%s-*/meta.json" % pid)):
    m = json.load(open(p))
    prev.append("- [%s] %s" % (", ".join(m.get("files", []))[:80], m.get("mechanism", "")[:260]))
r3 = ("ROUND 5. Earlier engineers already seeded the following changes for this property; do NOT repeat them or close variants:\n"
      + "\n".join(prev) + "\n"
      "Pick functions, branches and options of the anchored files that none of the above touches (read the files and list for "
      "yourself which public functions / parameters / branches the earlier changes left alone, then choose among those). "
      "Favour this time: (a) *interactions*: two options, keyword arguments or features that are each fine alone but wrong when "
      "used together, or a second public call on the same object whose result depends on what the first call left behind; "
      "(b) performance-motivated rewrites: a vectorised / cached / early-exit / size-switched ('fast path for small or large n') "
      "version of a loop that is equivalent on typical input and differs on duplicates, ties, unsorted input, empty segments or "
      "beyond a size threshold; (c) text handling: whitespace, empty strings, very long tokens, characters that are special for the "
      "format (quotes, separators, comment or directive prefixes, non-ASCII), upper/lower case; (d) numeric special cases: zero, "
      "negative zero, negative values where only positive ones are usual, NaN/inf where the statement covers them, values that "
      "round to a limit; (e) the *reverse direction* of a pair of inverse operations (the reader where earlier changes hit the "
      "writer, decode where they hit encode, removal where they hit insertion); (f) error handling that swallows or converts an "
      "exception so that a wrong value is returned instead of an error the statement demands. "
      "Avoid mutations that only weaken validation of obviously invalid input, avoid changes whose only effect is that two returned "
      "objects share memory, and avoid reverting any recent 'fix:' commit of the repository history.\n")
out = subprocess.run([sys.executable, "/verif/tools/seed_prompt.py", pid, r3 + extra], capture_output=True, text=True).stdout
print(out.replace("/tmp/seed-%s" % pid, "/tmp/seed5-%s" % pid).replace("/tmp/wt-%s" % pid, "/tmp/wt5-%s" % pid))
