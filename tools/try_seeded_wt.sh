#!/bin/sh
# usage: try_seeded_wt.sh SEEDDIR "C01 C02" [tier]
# Runs the checks against a scratch worktree (/var/tmp/verif-scratch-wt) with the seed applied, via VERIF_REPO;
# /repo and evidence/ are not touched (evidence goes to /var/tmp/verif-scratch-evidence).
S="$1"; PROPS="$2"; TIER="${3:-quick}"
W=${VERIF_SCRATCH_WT:-/var/tmp/verif-scratch-wt}
cd /verif || exit 2
if [ ! -d "$W" ] || [ "$(git -C $W rev-parse HEAD 2>/dev/null)" != "$(git -C /repo rev-parse HEAD)" ]; then
  git -C /repo worktree remove --force "$W" 2>/dev/null; rm -rf "$W"
  tools/mk_worktree.sh "$W" >/dev/null || exit 2
fi
git -C "$W" checkout -q -- . ; 
( cd /repo/src && find biotite \( -name '*.c' -o -name '*.cpp' \) | while read f; do cmp -s "$f" "$W/src/$f" || cp -p "$f" "$W/src/$f"; done )
git -C "$W" apply "$S/patch.diff" || { echo "patch does not apply to HEAD"; exit 2; }
if [ -f "$S/c.patch" ]; then
  CF=$(grep -m1 '^--- ' "$S/c.patch" | awk '{print $2}' | sed "s#^/repo/#$W/#")
  patch -s "$CF" < "$S/c.patch" || { echo "c.patch does not apply"; exit 2; }
fi
for p in $PROPS; do
  out=$(VERIF_REPO=$W VERIF_EVIDENCE_DIR=/var/tmp/verif-scratch-evidence VERIF_JOBS=${VERIF_JOBS:-8} ./check $p --tier $TIER 2>&1); rc=$?
  echo "== $p rc=$rc"; echo "$out" | grep -E "^VIOLATION|^  (stratum|probe)=|INCONCLUSIVE" | head -5
  echo "$out" | tail -1
done
git -C "$W" checkout -q -- .
( cd /repo/src && find biotite \( -name '*.c' -o -name '*.cpp' \) | while read f; do cmp -s "$f" "$W/src/$f" || cp -p "$f" "$W/src/$f"; done )
