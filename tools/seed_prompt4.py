#!/usr/bin/env python3
"""Round-4 prompt (derived from round 3; other emphasis)
Round-3 prompt: property text + everything seeded so far for it (to avoid) + a push towards API surface that the
earlier rounds did not touch and towards faults in *returned* objects (aliases of internal state, results that
depend on call order)."""
import glob, json, subprocess, sys
pid = sys.argv[1]
extra = sys.argv[2] if len(sys.argv) > 2 else ""
prev = []
for p in sorted(glob.glob("/verif/seeded/%s-*/meta.json" % pid)):
    m = json.load(open(p))
    prev.append("- [%s] %s" % (", ".join(m.get("files", []))[:80], m.get("mechanism", "")[:260]))
r3 = ("ROUND 4. Earlier engineers already seeded the following changes for this property; do NOT repeat them or close variants:\n"
      + "\n".join(prev) + "\n"
      "Pick functions, branches and options of the anchored files that none of the above touches (read the files and list for "
      "yourself which public functions / parameters / branches the earlier changes left alone, then choose among those). "
      "Favour this time: (a) code paths selected by the *type or form* of an argument (list vs tuple vs ndarray, str vs pathlib.Path vs "
      "open file object, Python int vs numpy integer, AtomArray vs AtomArrayStack vs plain coordinates, bytes vs str, C-contiguous vs "
      "strided or read-only arrays) where only one of the forms goes wrong; (b) a changed *default value* of a keyword parameter, or a "
      "keyword parameter that is silently ignored / not forwarded to a helper; (c) wrong results only for a particular element position "
      "(the first or the last element, row, column, model, record) or only for inputs of size exactly 0, 1 or 2; (d) numeric issues: "
      "accumulation in float32 instead of float64 or the reverse, integer overflow in an intermediate product, a different rounding mode, "
      "a tolerance that is absolute where it has to be relative; (e) helpers shared by several public functions, so that one slip shows "
      "in a function far away from the edit; (f) ordering assumptions (input assumed sorted, unique, or in the order it was created). "
      "Avoid mutations that only weaken validation of obviously invalid input, avoid changes whose only effect is that two returned "
      "objects share memory, and avoid reverting any recent 'fix:' commit of the repository history.\n")
out = subprocess.run([sys.executable, "/verif/tools/seed_prompt.py", pid, r3 + extra], capture_output=True, text=True).stdout
print(out.replace("/tmp/seed-%s" % pid, "/tmp/seed4-%s" % pid).replace("/tmp/wt-%s" % pid, "/tmp/wt4-%s" % pid))
