#!/bin/sh
# usage: validate_seed.sh SEEDDIR WORKTREE [full]
# confirms in the scratch worktree: patch applies, demo exits 1 with it and 0 without it;
# with "full": the whole baseline suite still passes with the patch (compared with BASELINE.json).
S="$1"; W="$2"
cd "$W" || exit 2
git checkout -q -- . ; git apply "$S/patch.diff" || { echo "PATCH-FAIL"; exit 2; }
PYTHONPATH=$W/src timeout 600 /venv/bin/python "$S/demo.py" >/dev/null 2>&1; with=$?
if [ "$3" = "full" ]; then
  /verif/tools/baseline_compare.py --repo "$W" -n ${NJ:-6} > "$S/baseline_with_patch.txt" 2>&1; echo "baseline rc=$? $(head -1 $S/baseline_with_patch.txt)"
fi
git checkout -q -- .
PYTHONPATH=$W/src timeout 600 /venv/bin/python "$S/demo.py" >/dev/null 2>&1; without=$?
echo "demo with patch rc=$with, without rc=$without"
[ "$with" != "0" ] && [ "$without" = "0" ]
