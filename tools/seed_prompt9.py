#!/usr/bin/env python3
"""Round-9 prompt (ONE change per property): the same logical input arriving in another legal representation."""
import glob, json, subprocess, sys
pid = sys.argv[1]
prev = []
for p in sorted(glob.glob("/verif/seeded/%s-*/meta.json" % pid)):
    m = json.load(open(p))
    prev.append("- [%s] %s" % (", ".join(m.get("files", []))[:80], m.get("mechanism", "")[:200]))
r = ("ROUND 9. Earlier engineers already seeded the following changes for this property; do NOT repeat them or close variants:\n"
     + "\n".join(prev) + "\n"
     "This round asks for ONE change only (m1), of ONE class: the code stays right for the representation of the input that the "
     "tests use and goes wrong when the SAME logical input arrives in another legal representation - a non-contiguous, strided, "
     "reversed (negative stride), Fortran-ordered, read-only or zero-dimensional NumPy array or a view of a larger array instead "
     "of a fresh C-contiguous one; a list / tuple / generator / range instead of an ndarray (or the other way round); Python int "
     "/ float / bool versus NumPy scalars; float32 versus float64, int32 versus int64, unsigned versus signed, big-endian, "
     "'U1' versus 'U10' versus 'S' versus object string dtypes; an index given as a boolean mask versus an index array versus a "
     "slice versus a negative index; a path given as str / pathlib.Path / open text handle / binary handle / StringIO; an "
     "instance of a subclass instead of the base class; keyword versus positional arguments; the object being a view or a copy "
     "of another one. Typical slips: `np.asarray` replaced by a cast that drops a branch, `.data`/memoryview access that assumes "
     "contiguity, `arr.view(...)`/`reshape(-1)`/`ravel()` used where a copy is needed (or the reverse), `is`/`type(x) ==` "
     "instead of `isinstance`, `if x:` on an array or on 0, `== None`, in-place `+=` on an array that may be the caller's or may "
     "have an integer dtype, dtype taken from the first element. The change must need at most a few seconds to demonstrate and "
     "you have about ten minutes in total: keep it small, do not explore widely.\n")
out = subprocess.run([sys.executable, "/verif/tools/seed_prompt.py", pid, r], capture_output=True, text=True).stdout
out = (out.replace("produce THREE independent changes", "produce ONE change").replace("The three changes should touch different mechanisms of the property (look at the anchors above for where the mechanisms live) and be independent of each other (each is a patch against the unmodified HEAD).", "Look at the anchors above for where the mechanisms live; the patch is against the unmodified HEAD.")
       .replace("For each change k = 1, 2, 3:", "For the change (k = 1):").replace("for each of the three changes", "for the change"))
print(out.replace("/tmp/seed-%s" % pid, "/tmp/seed9-%s" % pid).replace("/tmp/wt-%s" % pid, "/tmp/wt9-%s" % pid))
