#!/usr/bin/env python3
"""Round-7 prompt: property text + everything seeded so far for it (to avoid) + the fault classes that the runtime
monitors and the sanitizer builds are meant for and that no earlier round asked for explicitly."""
import glob, json, subprocess, sys
pid = sys.argv[1]
extra = sys.argv[2] if len(sys.argv) > 2 else ""
prev = []
for p in sorted(glob.glob("/verif/seeded/%s-*/meta.json" % pid)) + sorted(glob.glob("/tmp/seed6-%s/m*/meta.json" % pid)):
    m = json.load(open(p))
    prev.append("- [%s] %s" % (", ".join(m.get("files", []))[:80], m.get("mechanism", "")[:240]))
r = ("ROUND 7. Earlier engineers already seeded the following changes for this property; do NOT repeat them or close variants:\n"
     + "\n".join(prev) + "\n"
     "This time choose among these classes (each of the three changes from a different class, whichever the anchored code offers): "
     "(a) memory and integer safety in native code, if the anchored files include Cython: a buffer allocated with np.empty "
     "instead of np.zeros where not every cell is written, a loop bound or index that is one off only when a size is a multiple "
     "of some block length, an index or counter narrowed from int64 to int32 / from uint32 to int32, a pointer or memoryview kept "
     "across a reallocation (std::vector push_back, np.resize, table growth), a wrong element in a __dealloc__/free loop, a "
     "bounds check removed from a function compiled with boundscheck(False); such a change must stay silent for the sizes the "
     "tests use; (b) slips of a NumPy-2 / Python-3.12 migration: np.array(x, copy=False) vs np.asarray, value-based casting "
     "(NEP 50) where a Python int meets a uint8/int16 array, np.unique / np.isin / np.in1d argument changes, np.bool/np.int_ "
     "width, a sort that is no longer stable (kind= dropped), integer division or rounding (np.round vs round, // on negative "
     "values), str(np.float32) formatting inside a writer; (c) uninitialised or stale per-object state: an attribute that is "
     "only set in one branch of __init__ / only by one of two alternative constructors (classmethod, from-file, copy, unpickle, "
     "deepcopy), __copy_fill__ / copy() / __eq__ / __hash__ that forget an attribute added later; (d) iteration-order and "
     "tie-breaking: a dict/set iteration or an argmax/argmin/argsort tie whose documented choice (first, lowest index, input "
     "order) changes only when there are ties; (e) unit or convention slips that cancel for the common case: degrees vs radians "
     "for 90/180, 0-based vs 1-based positions for the first element, inclusive vs exclusive stop for full-length ranges, "
     "row-vector vs column-vector convention for symmetric matrices, transposed matrix for symmetric input; (f) error handling: "
     "an exception type that changes to a subclass-incompatible one, a finally/cleanup that no longer runs when the error is "
     "raised in a particular step, a warning promoted to silence. "
     "Avoid mutations that only weaken validation of obviously invalid input, avoid changes whose only effect is that two returned "
     "objects share memory, and avoid reverting any recent 'fix:' commit of the repository history.\n")
out = subprocess.run([sys.executable, "/verif/tools/seed_prompt.py", pid, r + extra], capture_output=True, text=True).stdout
print(out.replace("/tmp/seed-%s" % pid, "/tmp/seed7-%s" % pid).replace("/tmp/wt-%s" % pid, "/tmp/wt7-%s" % pid))
