#!/usr/bin/env python3
"""Regenerate the table of DESIGN.md section 10.1 from known_findings.json (order of the file is kept)."""
import json, re
k = json.load(open("/verif/known_findings.json"))["findings"]
def cell(s, n):
    s = " ".join(str(s or "").split()).replace("|", "/")
    return s if len(s) <= n else s[:n - 1] + "…"
rows = []
for e in k:
    st = e["status"] + ((" " + e["commit"]) if e.get("commit") else "")
    rows.append("| %s | %s | %s | %s | %s |" % (e["id"], e["property"], st, cell(e.get("where"), 110), cell(e.get("what"), 330)))
t = open("/verif/DESIGN.md").read().split("\n")
i = t.index("| id | property | status | where | what |")
j = i + 2
while j < len(t) and t[j].startswith("| "):
    j += 1
t[i + 2:j] = rows
s = "\n".join(t)
nf = sum(1 for e in k if e["status"] == "fixed"); nk = len(k) - nf
s = re.sub(r"\d+ mechanisms were found by the monitors on the tree as given \(\d+ repaired with\n`fix:` commits in /repo, \d+ recorded as known findings\)",
           "%d mechanisms were found by the monitors on the tree as given (%d repaired with\n`fix:` commits in /repo, %d recorded as known findings)" % (len(k), nf, nk), s)
open("/verif/DESIGN.md", "w").write(s)
print(len(k), nf, nk)
