#!/usr/bin/env python3
"""Print the prompt for a fresh mutation-seeding sub-agent: property text + worktree only, nothing from /verif."""
import json, sys
pid = sys.argv[1]
extra = sys.argv[2] if len(sys.argv) > 2 else ""
p = [json.loads(l) for l in open("/verif/properties.jsonl") if json.loads(l)["id"] == pid][0]
text = "Title: %s\nStatement: %s\nQuantifier: %s\nWhy unit tests cannot settle it: %s\nAnchors (files): %s\nAnchors (mechanisms): %s\nObserved at: %s" % (
    p["title"], p["statement"], p["quantifier"]["text"], p["why_tests_cant"], ", ".join(p["anchors"]["files"]),
    "; ".join("%s [%s]" % (m["name"], m["where"]) for m in p["anchors"]["mechanism"]), "; ".join(p["anchors"].get("observe_at", [])))
t = open("/verif/tools/seed_prompt.txt").read()
print(t.replace("__WT__", "/tmp/wt-" + pid).replace("__ID__", pid).replace("__PROP__", text).replace("__EXTRA__", extra))
