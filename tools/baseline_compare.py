#!/usr/bin/env python3
"""Run the repository's baseline suite (hooks off - there are none) and compare with BASELINE.json.
usage: baseline_compare.py [-n WORKERS]   exit 0 iff every stable_pass test still passes."""
import json, subprocess, sys, tempfile, xml.etree.ElementTree as ET, os
n = sys.argv[sys.argv.index("-n") + 1] if "-n" in sys.argv else "8"
repo = sys.argv[sys.argv.index("--repo") + 1] if "--repo" in sys.argv else "/repo"
base = json.load(open("/root/.vp/BASELINE.json"))
out = tempfile.mktemp(suffix=".xml", dir="/var/tmp")
cmd = ["/venv/bin/python", "-m", "pytest", "-q", "-p", "no:cacheprovider", "--timeout=900",
       "--continue-on-collection-errors", "--junitxml=" + out, "-n", n]
env = dict(os.environ)
if repo != "/repo":
    env["PYTHONPATH"] = os.path.join(repo, "src")
subprocess.run(cmd, cwd=repo, env=env, stdout=subprocess.DEVNULL, stderr=subprocess.DEVNULL)
passed = set()
for tc in ET.parse(out).getroot().iter("testcase"):
    if not any(ch.tag in ("failure", "error", "skipped") for ch in tc):
        passed.add("%s::%s" % (tc.get("classname"), tc.get("name")))
os.remove(out)
missing = [t for t in base["stable_pass"] if t not in passed]
print("baseline stable_pass=%d passed_now=%d missing=%d" % (len(base["stable_pass"]), len(passed), len(missing)))
for t in missing[:40]:
    print("  NOT PASSING:", t)
sys.exit(1 if missing else 0)
