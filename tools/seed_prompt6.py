#!/usr/bin/env python3
"""Round-4 prompt (derived from round 3; other emphasis)
Round-3 prompt: property text + everything seeded so far for it (to avoid) + a push towards API surface that the
earlier rounds did not touch and towards faults in *returned* objects (aliases of internal state, results that
depend on call order)."""
import glob, json, subprocess, sys
pid = sys.argv[1]
extra = sys.argv[2] if len(sys.argv) > 2 else ""
prev = []
for p in sorted(glob.glob("/verif/seeded/%s-*/meta.json" % pid)):
    m = json.load(open(p))
    prev.append("- [%s] %s" % (", ".join(m.get("files", []))[:80], m.get("mechanism", "")[:260]))
r3 = ("ROUND 6. Earlier engineers already seeded the following changes for this property; do NOT repeat them or close variants:\n"
      + "\n".join(prev) + "\n"
      "Pick functions, branches and options of the anchored files that none of the above touches (read the files and list for "
      "yourself which public functions / parameters / branches the earlier changes left alone, then choose among those). "
      "Favour this time: (a) start by listing the public functions, methods, parameters and branches of the anchored files and "
      "mark which of them the changes above already touched; choose ONLY among the untouched ones; (b) behaviour promised in "
      "docstrings (Parameters / Returns / Raises / Notes: shape, dtype, order of results, which exception type, what happens "
      "for None) that a refactoring could silently stop honouring; (c) constants and tables: lookup tables, enum values, column "
      "numbers and field widths of a format, regular expressions, default tolerances - one wrong entry that only matters for "
      "one rarely used key; (d) data-dependent branches that are rarely taken (if x.any(), if len(...) == 1, if a == b, "
      "try/except around an optional feature) with a slip inside the rare branch; (e) compositions: the output of one public "
      "function fed into another one (three-step round trips) where an intermediate attribute (dtype, order, a cached length) "
      "is slightly off but each single step still looks right; (f) unusual but valid inputs the statement includes: empty, a "
      "single element, all elements equal, duplicates, the maximum size a field can take. "
      "Avoid mutations that only weaken validation of obviously invalid input, avoid changes whose only effect is that two returned "
      "objects share memory, and avoid reverting any recent 'fix:' commit of the repository history.\n")
out = subprocess.run([sys.executable, "/verif/tools/seed_prompt.py", pid, r3 + extra], capture_output=True, text=True).stdout
print(out.replace("/tmp/seed-%s" % pid, "/tmp/seed6-%s" % pid).replace("/tmp/wt-%s" % pid, "/tmp/wt6-%s" % pid))
