#!/usr/bin/env python3
"""import_seed.py SRC_DIR SEED_ID 'caught_by text' ['note']  -> /verif/seeded/SEED_ID/{patch.diff,[c.patch],demo.py,meta.json}"""
import json, os, shutil, sys
src, sid, caught = sys.argv[1:4]
note = sys.argv[4] if len(sys.argv) > 4 else ""
dst = os.path.join("/verif/seeded", sid)
os.makedirs(dst, exist_ok=True)
for f in ("patch.diff", "c.patch", "demo.py"):
    if os.path.exists(os.path.join(src, f)):
        shutil.copy(os.path.join(src, f), dst)
meta = json.load(open(os.path.join(src, "meta.json")))
old = {}
if os.path.exists(os.path.join(dst, "meta.json")):
    old = json.load(open(os.path.join(dst, "meta.json")))
meta["seed_id"] = sid
meta["origin"] = "fresh sub-agent given only the property text and a scratch worktree (nothing from /verif)"
meta["lead_verification"] = old.get("lead_verification", {})
meta["lead_verification"].update({
    "demo": "tools/validate_seed.sh: demo.py exits 1 with the patch applied in a scratch worktree and 0 without it",
    "checks": caught,
})
if note:
    meta["lead_verification"]["note"] = note
json.dump(meta, open(os.path.join(dst, "meta.json"), "w"), indent=1)
print(dst)
