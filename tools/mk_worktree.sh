#!/bin/sh
# usage: mk_worktree.sh DIR   -> scratch git worktree of /repo HEAD with the compiled extension modules copied in,
# so that `PYTHONPATH=DIR/src /venv/bin/python -m pytest DIR/tests/...` works.  Remove with
#   git -C /repo worktree remove --force DIR
set -e
D="$1"
git -C /repo worktree add --detach -q "$D" HEAD
cd /repo/src
find biotite \( -name '*.so' -o -name 'version.py' \) | while read f; do cp -p "$f" "$D/src/$f"; done
# generated C is copied too so that an agent may edit it consistently with the .pyx (it is git-ignored)
find biotite \( -name '*.c' -o -name '*.cpp' \) | while read f; do cp -p "$f" "$D/src/$f"; done
for f in $(cat /root/.vp/EMPTIED_FILES.txt 2>/dev/null); do :; done
echo "$D ready"
