#!/bin/sh
# usage: validate_seed_c.sh SEEDDIR WORKTREE
# For seeds that edit a .pyx and the generated C: apply patch.diff (both hunks), run the build_cmd recorded in meta.json,
# run demo.py (must exit 1), restore the worktree incl. the git-ignored generated files and extension modules from /repo,
# run demo.py again (must exit 0).
S="$1"; W="$2"
restore() {
  git -C "$W" checkout -q -- .
  ( cd /repo/src && find biotite \( -name '*.c' -o -name '*.cpp' -o -name '*.so' \) | while read f; do cmp -s "$f" "$W/src/$f" || cp -p "$f" "$W/src/$f"; done )
}
restore
git -C "$W" apply "$S/patch.diff" || { echo "PATCH-FAIL"; exit 2; }
CMD=$(python3 -c "import json,sys; print(json.load(open('$S/meta.json')).get('build_cmd',''))")
if [ -n "$CMD" ]; then sh -c "$CMD" >/dev/null 2>&1 || { echo "BUILD-FAIL: $CMD"; restore; exit 2; }; fi
( cd "$W" && PYTHONPATH=$W/src timeout 900 /venv/bin/python "$S/demo.py" >/dev/null 2>&1 ); with=$?
restore
( cd "$W" && PYTHONPATH=$W/src timeout 900 /venv/bin/python "$S/demo.py" >/dev/null 2>&1 ); without=$?
echo "demo with patch rc=$with, without rc=$without"
[ "$with" != "0" ] && [ "$without" = "0" ]
