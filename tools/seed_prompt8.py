#!/usr/bin/env python3
"""Round-8 prompt (12 properties with native or size-sensitive code, TWO changes each): one fault class only - widths of
integer types and sizes that cross them - because that is where round 7 found the generators thin."""
import glob, json, subprocess, sys
pid = sys.argv[1]
prev = []
for p in sorted(glob.glob("/verif/seeded/%s-*/meta.json" % pid)):
    m = json.load(open(p))
    prev.append("- [%s] %s" % (", ".join(m.get("files", []))[:80], m.get("mechanism", "")[:220]))
r = ("ROUND 8. Earlier engineers already seeded the following changes for this property; do NOT repeat them or close variants:\n"
     + "\n".join(prev) + "\n"
     "This round asks for ONE class only, and for TWO changes (m1, m2) instead of three: the width of an integer or the size of a "
     "buffer is chosen too small, so that the code is right for every input the tests use and wrong once some quantity "
     "crosses a power of two or a buffer length: a counter, index, offset, position, code, length, hash, product of two sizes "
     "or accumulated sum held in (or cast to) uint8 / int8 / int16 / uint16 / int32 / uint32 / C int / float32 where the "
     "original uses a wider type or where the quantity can exceed it (np.zeros(..., dtype=np.uint8) counters, astype(np.int16), "
     "cdef int instead of int64/Py_ssize_t, i * n + j computed in 32 bits, a float32 accumulator for a large sum, a format "
     "width or pre-allocated row length computed from the first element instead of the maximum, a table of fixed size that a "
     "larger alphabet / more atoms / deeper nesting / longer sequence overruns). Look through the anchored files for every "
     "place where a quantity that grows with the input (number of atoms, bonds per atom, residues, models, sequence length, "
     "alphabet size, k-mer code, table cells, tree depth, number of records, string length) is stored, and choose two places "
     "that the earlier changes did not touch; both changes must stay silent for the sizes the existing tests use and must need "
     "at most a few seconds and a few hundred MB to demonstrate. Prefer Cython code where the anchors have it (patch the .pyx and "
     "the generated C by hand), otherwise NumPy dtype choices in the .py files.\n")
out = subprocess.run([sys.executable, "/verif/tools/seed_prompt.py", pid, r], capture_output=True, text=True).stdout
out = out.replace("produce THREE independent changes", "produce TWO independent changes").replace("The three changes should", "The two changes should").replace("For each change k = 1, 2, 3:", "For each change k = 1, 2:").replace("for each of the three changes", "for each of the two changes")
print(out.replace("/tmp/seed-%s" % pid, "/tmp/seed8-%s" % pid).replace("/tmp/wt-%s" % pid, "/tmp/wt8-%s" % pid))
