#!/venv/bin/python
"""Mechanical mutation sweep over the *generated C* of the Cython modules a property is anchored in (no Cython here:
the checks compile the generated C, so that is what can be mutated).

  automut_c.py count Cxx
  automut_c.py run   Cxx --lane L [--sample K] [--rseed S] [--scale F] [--jobs J]
  automut_c.py survivors Cxx

Cython writes, before the C code of every source statement, a comment  /* "biotite/x/y.pyx":LINE ...  */ .  A mutation
site is a C line between two such markers that compares or offsets a *user* variable (__pyx_v_...); the operators are the
comparison boundary/negation swaps and '+ 1' / '- 1' flips.  Fused-type functions are emitted once per specialisation:
the k-th site of a .pyx line is mutated in every block generated for that line, like a change of the .pyx would.
The mutated file is written into the lane's scratch worktree (never /repo); the check is run with VERIF_REPO pointing
there and recompiles the changed module (clang ASan+UBSan or gcc, as the driver asks).  Results: /var/tmp/automut/Cxx-c.jsonl.
"""
import argparse
import hashlib
import json
import os
import random
import re
import subprocess
import sys
import time

sys.path.insert(0, "/verif")
REPO = "/repo"
OUT = "/var/tmp/automut"

MODULES = {
    "C02": ["structure/bonds.c"],
    "C03": ["sequence/codec.c"],
    "C05": ["structure/io/pdbx/encoding.c"],
    "C07": ["structure/io/pdb/hybrid36.c"],
    "C08": ["sequence/align/pairwise.c", "sequence/align/tracetable.c"],
    "C09": ["sequence/align/banded.c", "sequence/align/localgapped.c", "sequence/align/localungapped.c"],
    "C10": ["sequence/align/kmertable.cpp", "sequence/align/kmeralphabet.c", "sequence/align/selector.c"],
    "C11": ["sequence/align/multiple.c"],
    "C14": ["structure/celllist.c"],
    "C17": ["structure/bonds.c"],
    "C19": ["sequence/phylo/tree.c", "sequence/phylo/upgma.c", "sequence/phylo/nj.c"],
}
MARK = re.compile(r'^\s*/\* "([^"]+)":(\d+)\s*$')
CMP = re.compile(r'(__pyx_v_[A-Za-z0-9_>.\-\[\]]*?[A-Za-z0-9_\]])\s(<=|>=|==|!=|<|>)\s(\(?-?[A-Za-z0-9_(][^;&|]*)')
PM1 = re.compile(r'(__pyx_v_[A-Za-z0-9_]+|\d+)\s([+-])\s(?=(?:\d+|\(?__pyx_v_[A-Za-z0-9_]+))')
SWAP = {"<": "<=", "<=": "<", ">": ">=", ">=": ">", "==": "!=", "!=": "=="}
NOISE = ("unlikely(", "PyErr", "__PYX_ERR", "NULL", "Py_None", "__Pyx_", "goto ", "PyObject", "__pyx_L", "memview", "->data", "strides", "suboffsets",
         "__pyx_v_kind", "__pyx_v_itemsize", "__pyx_v_dtype", "__pyx_v_self->ndim", "__pyx_v_self->_shape", "__pyx_v_arg_", "__pyx_v_dest_sig", "__pyx_v_candidates",
         "line_table_length", "__pyx_v_info", "__pyx_v_flags", "__pyx_v_bufmode", "__pyx_v_mode", "__pyx_v_format")


def blocks_of(path):
    """[(pyx, line, first_c_line_index, last_c_line_index_exclusive)] for the marker-delimited code blocks."""
    lines = open(path, encoding="utf-8", errors="replace").read().split("\n")
    marks = []
    for i, l in enumerate(lines):
        m = MARK.match(l)
        if m:
            marks.append((i, m.group(1), int(m.group(2))))
    out = []
    for k, (i, pyx, ln) in enumerate(marks):
        j = i
        while j < len(lines) and "*/" not in lines[j]:
            j += 1
        end = marks[k + 1][0] if k + 1 < len(marks) else len(lines)
        if pyx.startswith("biotite/") and pyx.endswith(".pyx"):      # blocks of View.MemoryView etc. only delimit
            out.append((pyx, ln, j + 1, end))
    return lines, out


def sites_in(lines, a, e):
    """[(line index, start, end, replacement, op)] inside one block, in textual order."""
    res = []
    for i in range(a, e):
        l = lines[i]
        s = l.strip()
        if not s or s.startswith(("/*", "*", "//", "#")) or any(n in l for n in NOISE):
            continue
        for m in CMP.finditer(l):
            res.append((i, m.start(2), m.end(2), SWAP[m.group(2)], "cmp"))
        for m in PM1.finditer(l):
            res.append((i, m.start(2), m.end(2), "-" if m.group(2) == "+" else "+", "pm1"))
    return res


def generate(pid, repo=REPO):
    muts = []
    for rel in MODULES.get(pid, []):
        path = os.path.join(repo, "src", "biotite", rel)
        if not os.path.exists(path):
            continue
        lines, blocks = blocks_of(path)
        by_line = {}
        for pyx, ln, a, e in blocks:
            st = sites_in(lines, a, e)
            if st:
                by_line.setdefault((pyx, ln), []).append(st)
        for (pyx, ln), blks in sorted(by_line.items()):
            if not pyx.endswith(os.path.basename(rel).rsplit(".", 1)[0] + ".pyx"):
                continue          # code inlined from another module's .pxd
            nsite = min(len(b) for b in blks)
            for k in range(nsite):
                ops = {(lines[b[k][0]][b[k][1]:b[k][2]], b[k][3]) for b in blks}
                if len(ops) != 1:
                    continue      # the specialisations disagree: not the same source construct
                old, new = ops.pop()
                muts.append({"file": "src/biotite/" + rel, "pyx": pyx, "line": ln, "k": k, "old": old, "new": new, "op": blks[0][k][4],
                             "edits": [(b[k][0], b[k][1], b[k][2]) for b in blks], "c_text": lines[blks[0][k][0]].strip()[:160]})
    return muts




def run(pid, lane, sample, rseed, scale, jobs, only_survivors=False):
    sys.path.insert(0, "/verif/tools")
    import importlib.util
    spec = importlib.util.spec_from_file_location("automut", "/verif/tools/automut.py")
    am = importlib.util.module_from_spec(spec)
    spec.loader.exec_module(am)
    os.makedirs(OUT, exist_ok=True)
    wt = am.ensure_lane(lane)
    muts = generate(pid)
    logp = os.path.join(OUT, "%s-c.jsonl" % pid)
    done = set()
    surv = set()
    if os.path.exists(logp):
        for l in open(logp):
            r = json.loads(l)
            done.add((r["file"], r["line"], r["k"]))
            if r["rc"] == 0:
                surv.add((r["file"], r["line"], r["k"]))
            else:
                surv.discard((r["file"], r["line"], r["k"]))
    if only_survivors:
        muts = [m for m in muts if (m["file"], m["line"], m["k"]) in surv]
        done = set()
        sample = len(muts)
    rnd = random.Random(rseed)
    byl = {}
    for m in muts:
        byl.setdefault((m["file"], m["line"] // 25), []).append(m)       # spread over the source file
    for v in byl.values():
        rnd.shuffle(v)
    order = []
    keys = sorted(byl)
    rnd.shuffle(keys)
    while any(byl.values()) and len(order) < sample:
        for kx in keys:
            if byl[kx] and len(order) < sample:
                order.append(byl[kx].pop())
    env = dict(os.environ, VERIF_REPO=wt, VERIF_EVIDENCE_DIR="/var/tmp/automut/evidence-%s" % lane, VERIF_SCALE=str(scale), VERIF_JOBS=str(jobs))
    for m in order:
        if (m["file"], m["line"], m["k"]) in done:
            continue
        path = os.path.join(wt, m["file"])
        orig = open(os.path.join(REPO, m["file"]), encoding="utf-8", errors="replace").read()
        lines = orig.split("\n")
        for (i, a, e) in sorted(m["edits"], reverse=True):
            lines[i] = lines[i][:a] + m["new"] + lines[i][e:]
        new = "\n".join(lines)
        with open(path, "w", encoding="utf-8", errors="replace") as f:
            f.write(new)
        sha = hashlib.sha256(open(path, "rb").read()).hexdigest()[:20]
        t0 = time.time()
        try:
            p = subprocess.run(["./check", pid, "--tier", "quick"], cwd="/verif", env=env, capture_output=True, text=True, timeout=2400)
            rc, outp = p.returncode, p.stdout + p.stderr
        except subprocess.TimeoutExpired:
            rc, outp = 124, "timeout"
        finally:
            with open(path, "w", encoding="utf-8", errors="replace") as f:
                f.write(orig)
            for fl in ("san", "plain"):
                d = "/verif/.build/obj/%s" % fl
                if os.path.isdir(d):
                    for fn in os.listdir(d):
                        if "-%s-" % sha in fn:
                            try:
                                os.remove(os.path.join(d, fn))
                            except OSError:
                                pass
        first = ""
        for l in outp.splitlines():
            if re.match(r"^  (stratum|probe)=", l) or "INCONCLUSIVE" in l or "compile failed" in l or "selftest" in l.lower():
                first = l.strip()[:240]
                break
        rec = {k: v for k, v in m.items() if k != "edits"}
        rec.update(nblocks=len(m["edits"]), rc=rc, first=first, secs=round(time.time() - t0, 1))
        with open(logp, "a") as f:
            f.write(json.dumps(rec) + "\n")
        print("%s:%d#%d x%d rc=%d %.0fs %s -> %s | %s | %s" % (os.path.basename(m["pyx"]), m["line"], m["k"], len(m["edits"]), rc, rec["secs"], m["old"], m["new"],
                                                          m["c_text"][:70], first[:90]), flush=True)


def survivors(pid):
    logp = os.path.join(OUT, "%s-c.jsonl" % pid)
    last = {}
    for l in open(logp):
        r = json.loads(l)
        last[(r["file"], r["line"], r["k"])] = r
    n = k = 0
    for r in last.values():
        n += 1
        if r["rc"] == 0:
            k += 1
            print("%s:%d#%d [%s -> %s] %s" % (r["pyx"], r["line"], r["k"], r["old"], r["new"], r["c_text"][:110]))
    print("# %s (generated C): %d mutants run, %d not reported" % (pid, n, k))


if __name__ == "__main__":
    ap = argparse.ArgumentParser()
    ap.add_argument("cmd", choices=["count", "run", "survivors"])
    ap.add_argument("pid")
    ap.add_argument("--lane", default="5")
    ap.add_argument("--sample", type=int, default=30)
    ap.add_argument("--rseed", type=int, default=1)
    ap.add_argument("--scale", type=float, default=0.3)
    ap.add_argument("--jobs", type=int, default=3)
    ap.add_argument("--only-survivors", action="store_true")
    a = ap.parse_args()
    if a.cmd == "count":
        ms = generate(a.pid)
        print(a.pid, len(ms), "sites on", len({(m["file"], m["line"]) for m in ms}), "source lines")
        for m in ms[:6]:
            print("  ", m["pyx"], m["line"], m["old"], "->", m["new"], "x%d" % len(m["edits"]), "|", m["c_text"][:100])
    elif a.cmd == "run":
        run(a.pid, a.lane, a.sample, a.rseed, a.scale, a.jobs, a.only_survivors)
    else:
        survivors(a.pid)
