#!/usr/bin/env python3
"""Regenerate the seeded-changes table of DESIGN.md section 10.2 from seeded/*/meta.json (rows sorted by seed id).
The table is everything from the header row '| seed | mechanism | needs | caught by |' to the end of that table."""
import glob, json, re
rows = []
def key(s):
    m = re.match(r"(C\d\d)(?:-r(\d))?-m(\d)", s)
    return (m.group(1), int(m.group(2) or 1), int(m.group(3)))
metas = {}
for p in glob.glob("/verif/seeded/*/meta.json"):
    m = json.load(open(p)); metas[m["seed_id"]] = m
def cell(s, n):
    s = " ".join(str(s).split()).replace("|", "/")
    return s if len(s) <= n else s[:n - 1] + "…"
for sid in sorted(metas, key=key):
    m = metas[sid]
    lv = m.get("lead_verification", {})
    caught = lv.get("checks", "")
    if lv.get("note"):
        caught = caught + " — " + lv["note"]
    rows.append("| %s | %s | %s | %s |" % (sid, cell(m.get("mechanism", ""), 200), cell(m.get("needs", ""), 170), cell(caught, 260)))
text = open("/verif/DESIGN.md").read().split("\n")
i = text.index("| seed | mechanism | needs | caught by |")
j = i + 2
while j < len(text) and text[j].startswith("| C"):
    j += 1
text[i + 2:j] = rows
open("/verif/DESIGN.md", "w").write("\n".join(text))
n = len(rows); missed = sum(1 for s in metas.values() if "missed at first" in json.dumps(s) or "after strengthening" in json.dumps(s).lower())
out = sum(1 for s in metas.values() if "outside the statement" in json.dumps(s))
print("rows", n, "strengthened-after-miss", missed, "outside", out)
