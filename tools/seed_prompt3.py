#!/usr/bin/env python3
"""Round-3 prompt: property text + everything seeded so far for it (to avoid) + a push towards API surface that the
earlier rounds did not touch and towards faults in *returned* objects (aliases of internal state, results that
depend on call order)."""
import glob, json, subprocess, sys
pid = sys.argv[1]
extra = sys.argv[2] if len(sys.argv) > 2 else ""
prev = []
for p in sorted(glob.glob("/verif/seeded/%s-*/meta.json" % pid)):
    m = json.load(open(p))
    prev.append("- [%s] %s" % (", ".join(m.get("files", []))[:80], m.get("mechanism", "")[:260]))
r3 = ("ROUND 3. Earlier engineers already seeded the following changes for this property; do NOT repeat them or close variants:\n"
      + "\n".join(prev) + "\n"
      "Pick functions, branches and options of the anchored files that none of the above touches (read the files and list for "
      "yourself which public functions / parameters / branches the earlier changes left alone, then choose among those). "
      "Favour: (a) optional parameters and non-default modes that are rarely combined; (b) faults that only show in the "
      "*second* result of a batch, the second call on the same object, or when two results of one call are compared with each "
      "other; (c) returned objects that alias internal state or the arguments where the original returns independent data, so that "
      "a later legitimate in-place edit by the caller corrupts something; (d) off-by-one errors at the *upper* end of a range, at "
      "dtype limits (255/256, 65535/65536, 2**31), at empty or length-1 inputs; (e) two-site changes where a helper and its "
      "caller both change. Avoid mutations that only weaken validation of obviously invalid input, and avoid reverting any "
      "recent 'fix:' commit of the repository history.\n")
out = subprocess.run([sys.executable, "/verif/tools/seed_prompt.py", pid, r3 + extra], capture_output=True, text=True).stdout
print(out.replace("/tmp/seed-%s" % pid, "/tmp/seed3-%s" % pid).replace("/tmp/wt-%s" % pid, "/tmp/wt3-%s" % pid))
