#!/usr/bin/env python3
"""Markdown table of the mutation sweeps (/var/tmp/automut/*.jsonl): per property, mutants run / reported / not reported."""
import glob, json, os
rows = {}
for fn in sorted(glob.glob("/var/tmp/automut/C??.jsonl")) + sorted(glob.glob("/var/tmp/automut/C??-c.jsonl")):
    if fn.endswith("-rerun.jsonl"):
        continue
    base = os.path.basename(fn)
    pid, kind = base[:3], ("generated C" if base.endswith("-c.jsonl") else "python")
    seen = {}
    fns = [fn] + ([fn.replace(".jsonl", "-rerun.jsonl")] if os.path.exists(fn.replace(".jsonl", "-rerun.jsonl")) else [])
    for f in fns:
        for l in open(f):
            r = json.loads(l)
            key = (r["file"], r.get("a", r.get("line")), r.get("e", r.get("k")), r["new"])
            seen[key] = r["rc"]
    n = len(seen); rep = sum(1 for v in seen.values() if v == 1); inc = sum(1 for v in seen.values() if v not in (0, 1)); sur = sum(1 for v in seen.values() if v == 0)
    rows[(pid, kind)] = (n, rep, inc, sur)
print("| property | level | mutants run | reported (exit 1) | inconclusive / build failure | not reported |")
print("|---|---|---|---|---|---|")
tot = [0, 0, 0, 0]
for (pid, kind), (n, rep, inc, sur) in sorted(rows.items()):
    print("| %s | %s | %d | %d | %d | %d |" % (pid, kind, n, rep, inc, sur))
    for i, v in enumerate((n, rep, inc, sur)):
        tot[i] += v
print("| total | | %d | %d | %d | %d |" % tuple(tot))
